"""Replay of TLC-generated SCHEDULES of spec/Dispatch.tla on the real dispatcher (C06, C14).

Spec: Dispatch.tla - every action is what one goroutine of the dispatcher's group management does
between two gate points of the real code (hook dispatch.verifPoint; start of the tracing span
dispatch.AggregationGroup.insert = inside aggrGroup.insert, just before the store's Set).
Gen: spec/mc/Gen_Dispatch.tla prints complete schedules (steps [actor, action] with the abstract state
after each step): exhaustively up to a bound on the number of PREEMPTIONS (context-bounded), and by
`-simulate` without that bound.
Bind: harness/dsched parks every goroutine at every gate (verifPoint callback + a TracerProvider set
with otel.SetTracerProvider), releases exactly the goroutine the schedule names, compares the projected
real state (group map, each group's content / destroyed / cancelled / running, where every goroutine
is) with the model after every step, and evaluates the PROPERTY on the real system (API, delivered
notifications) at the end of every schedule.

    run_dispatch_schedules(pid, tier, v) -> coverage dict

reports violations only for the clauses `pid` owns:
    C06: split (one group key in two live groups), missing (alert of the group not in its
         notification), lost (alert the provider holds as firing is in no group)
    C14: stale (the group does not hold the most recently submitted version although the versions
         were handed over in submission order, or not in the way finding F3 explains)
Schedules that hand versions over out of submission order are the listed finding F3: counted, excused
where the real result is the one the model computes, and reported through the known-finding path for
pid == "C14" only (as checks/c14.py does).  Differences between model and real state that do not
contradict the property are DRIFT notes; frequent ones make the run Inconclusive (wrong binding)."""
import json, os, hashlib, threading
from lib import vlib
from lib.vlib import log

OWNED = {"C06": {"split", "missing", "lost"}, "C14": {"stale"}}

# (cfg, resolved versions, simulate traces or None, minimum number of schedules)
QUICK = [
    ("Gen_Dispatch.cfg", "2", None, 500),
    ("Gen_Dispatch_b.cfg", "2,4", None, 200),
    ("Gen_Dispatch_ne.cfg", "2", None, 200),
    ("Gen_Dispatch_sim.cfg", "2,4", 300, 150),
    ("Gen_Dispatch_sim3.cfg", "2", 200, 100),
]
THOROUGH = [
    ("Gen_Dispatch_t3.cfg", "2", None, 10000),
    ("Gen_Dispatch_t4.cfg", "2,4", None, 3000),
    ("Gen_Dispatch_t4p3.cfg", "2,4", None, 30000),
    ("Gen_Dispatch_tne.cfg", "2", None, 5000),
    ("Gen_Dispatch_b.cfg", "2,4", None, 200),
    ("Gen_Dispatch_ne.cfg", "2", None, 200),
    ("Gen_Dispatch_sim.cfg", "2,4", 4000, 2000),
    ("Gen_Dispatch_sim3.cfg", "2", 2000, 1000),
]
SHARDS = 4

# every race the mechanism exists for must have been driven on the real code (vacuity)
REQUIRED_FEATURES = ["insert_raced_destroying_flush", "create_raced_create", "maint_raced_recreation",
                     "insert_during_flush", "swap_of_destroyed_group", "maint_delete_refused"]

ASSUMPTIONS = [
    "scheduling control = the verif hook sites of dispatch.go plus the start of the span dispatch.AggregationGroup.insert "
    "(tracing enabled through tracing.Manager.ApplyConfig, then a gate TracerProvider set with otel.SetTracerProvider); "
    "what one goroutine does between two gates is one atomic model action",
    "group.loaded and flush.done are observed but not parked at (nothing shared is touched between them and the next gate); "
    "the insert span of a freshly created private group is passed",
    "one label set, one group key, one route; 2-3 model workers (the dispatcher runs 8), up to 4 versions, 2 flushes, 1 maintenance sweep per schedule",
    "exhaustive enumeration is context-bounded (at most 1-4 preemptions, private steps Create / FlushNotify taken eagerly in some configurations); "
    "unbounded preemption only by seeded simulation",
    "time passes only in FlushBegin (until the group's timer fires), FlushNotify (milliseconds) and MaintCheck (until the next sweep); "
    "submissions are one virtual millisecond apart",
    "F3 is a listed finding: a schedule that hands versions over out of submission order is excused only when the real "
    "group ends with the version the model computes",
    "export-only overlay harness/overlay/dispatch (group map, group fields) is read-only",
]


def _gen(pid, cfg, sim, seed):
    wd = os.path.join(vlib.OUT, pid)
    name = "dsched_" + cfg.replace(".cfg", "")
    raw = os.path.join(wd, name + ".raw")
    out = os.path.join(wd, name + ".jsonl")
    if sim:
        r = vlib.tlc(pid, name, "Gen_Dispatch", cfg, workers=1, timeout=600, simulate="num=%d" % sim, depth=90,
                     extra=["-seed", str(seed)], marker="@@H ", payload_to=raw)
    else:
        r = vlib.tlc(pid, name, "Gen_Dispatch", cfg, workers=4, timeout=900, marker="@@H ", payload_to=raw)
    if r.timed_out:
        raise vlib.Inconclusive("Gen_Dispatch %s: TLC timed out" % cfg)
    if r.violated or r.error or r.rc != 0:
        raise vlib.Inconclusive("Gen_Dispatch %s: TLC failed: %s %s (see %s)" % (cfg, r.violated, r.error, r.stdout_path))
    seen, n = set(), 0
    with open(raw) as f, open(out, "w") as o:
        for line in f:
            h = hashlib.sha1(line.encode()).digest()
            if h in seen:
                continue
            seen.add(h)
            o.write(line)
            n += 1
    os.remove(raw)
    return r, out, n


def _merge(parts):
    tot = dict(cases=0, steps=0, nontrivial=0, counters={}, mismatches=[], n_mismatches=0, samples=[], notes=[])
    for r in parts:
        tot["cases"] += r["cases"]
        tot["steps"] += r["steps"]
        tot["nontrivial"] += r["nontrivial"]
        tot["n_mismatches"] += r["n_mismatches"]
        for k, x in r["counters"].items():
            tot["counters"][k] = tot["counters"].get(k, 0) + x
        tot["mismatches"] += r["mismatches"]
        tot["samples"] += r["samples"][:1]
        tot["notes"] += r.get("notes") or []
    return tot


def _replay(pid, binp, path, n, resolved, tag, seed):
    """Run the schedules of `path` on the real dispatcher, SHARDS processes side by side."""
    wd = os.path.join(vlib.OUT, pid)
    k = max(1, min(SHARDS, n // 50))
    inps = [os.path.join(wd, "%s_shard%d.jsonl" % (tag, i)) for i in range(k)]
    fhs = [open(p, "w") for p in inps]
    with open(path) as f:
        for j, line in enumerate(f):
            fhs[j % k].write(line)
    for fh in fhs:
        fh.close()
    results, errors = [None] * k, []

    def work(i):
        inp = inps[i]
        outp = os.path.join(wd, "%s_shard%d.json" % (tag, i))
        try:
            rc, txt = vlib.go_run_test(binp, "TestDsched$", ["-in", inp, "-out", outp, "-n", "0", "-seed", str(seed)],
                                       env_extra={"VERIF_RESOLVED": resolved}, timeout=1500)
            if rc != 0:
                errors.append("schedule replay failed (rc %d):\n%s" % (rc, txt[-3000:]))
                return
            results[i] = vlib.load_result(outp)
        except vlib.Inconclusive as e:
            errors.append(str(e))
        finally:
            try:
                os.remove(inp)
            except OSError:
                pass

    ths = [threading.Thread(target=work, args=(i,)) for i in range(k)]
    for t in ths:
        t.start()
    for t in ths:
        t.join()
    if errors:
        raise vlib.Inconclusive(errors[0])
    return _merge(results)


def _artefact(pid, tag, m):
    p = os.path.join(vlib.OUT, pid, "dsched_%s_case_%s_%d.json" % (tag, m.get("class"), m["case"]))
    with open(p, "w") as f:
        json.dump(m.get("replay"), f)
    return p


def run_dispatch_schedules(pid, tier, v):
    """TLC Gen -> build -> replay; violations for the clauses owned by pid; returns coverage counts."""
    owned = OWNED.get(pid, set())
    wd = os.path.join(vlib.OUT, pid)
    os.makedirs(wd, exist_ok=True)
    seed = vlib.seed()
    binp = vlib.go_build_test(pid, "dsched")
    open_f3 = [f for f in vlib.known_findings("C14") if f["key"] == "F3"]
    total = vlib_states = vlib_trans = 0
    results, per_cfg = [], {}
    for cfg, resolved, sim, least in (THOROUGH if tier == "thorough" else QUICK):
        tag = cfg.replace(".cfg", "")
        r, path, n = _gen(pid, cfg, sim, seed)
        if n < least:
            raise vlib.Inconclusive("%s produced only %d schedules (expected at least %d)" % (cfg, n, least))
        vlib_states += r.distinct
        vlib_trans += r.generated
        res = _replay(pid, binp, path, n, resolved, tag, seed)
        if res["cases"] != n:
            raise vlib.Inconclusive("%s: %d schedules generated, %d replayed" % (cfg, n, res["cases"]))
        if os.path.getsize(path) > 50e6:      # reproducers are kept per violation; the full list is regenerated by TLC
            os.remove(path)
        c = res["counters"]
        log("  %s: %d schedules%s on the real dispatcher, %d steps, %d in lock step (%d steps compared), %d left the model, "
            "%d with drift, F3 %d" % (cfg, n, " (simulated, seed %d)" % seed if sim else "", res["steps"], c.get("lockstep", 0),
                                     c.get("steps_compared", 0), c.get("deviations", 0), c.get("schedules_with_drift", 0), c.get("F3", 0)))
        total += n
        per_cfg[tag] = n
        results.append((tag, res))

    cnt = {}
    for _, res in results:
        for k, x in res["counters"].items():
            cnt[k] = cnt.get(k, 0) + x
    f3 = cnt.get("F3", 0)
    other = {}
    nviol = 0
    f3_sample = None
    shown = {}
    for tag, res in results:
        for m in res["mismatches"]:
            cls = m.get("class")
            if cls == "F3":
                if f3_sample is None:
                    f3_sample = (tag, m)
                continue
            if cls in owned:
                nviol += 1
                shown[(tag, cls)] = shown.get((tag, cls), 0) + 1
                if shown[(tag, cls)] > 3:      # a few reproducers per class and configuration are enough
                    continue
                v.violation("schedule of Dispatch.tla replayed on the real dispatcher (%s, %d schedules with this verdict): %s: %s" %
                            (tag, res["counters"].get("violation_" + cls, 0), cls, m["what"]), [_artefact(pid, tag, m)])
            else:
                other[cls] = other.get(cls, 0) + 1
    # the listed finding F3, reported the way checks/c14.py reports it
    if f3_sample is not None:
        tag, m = f3_sample
        rp = _artefact(pid, tag, m)
        if pid == "C14":
            if open_f3:
                v.known_finding("F3", "ingestion workers that received successive updates of one alert hand them to the group out of order: "
                                      "the group ends with version %s instead of %s in %d of %d schedules (e.g. %s)" %
                                (m.get("got"), m.get("want"), f3, total, rp))
            else:
                v.violation("an older update overwrote a newer one: group holds version %s, last submitted %s" % (m.get("got"), m.get("want")), [rp])
        elif not open_f3 and pid == "C06" and (cnt.get("F3_lost", 0) or cnt.get("F3_missing", 0)):
            v.violation("versions handed over out of submission order leave a firing alert outside every group in %d schedules, and F3 is not a listed finding any more"
                        % (cnt.get("F3_lost", 0) + cnt.get("F3_missing", 0)), [rp])
    if pid == "C14" and open_f3 and f3 == 0:
        v.notes.append("KNOWN-FINDING-NOT-REPRODUCED property=C14 F3")
    for cls, n in sorted(other.items()):
        v.notes.append("NOTE property=%s the schedule replay saw %d finding(s) of class %s, a clause of %s (not reported here)" %
                       (pid, n, cls, "C14" if cls == "stale" else "C06"))

    # conformance: drift and deviations that do not contradict the property
    dev, drifted = cnt.get("deviations", 0), cnt.get("schedules_with_drift", 0)
    notes = [n for _, res in results for n in res["notes"]]
    if dev or drifted:
        v.notes.append("DRIFT property=%s Dispatch.tla schedules: the real code left the model in %d and its state differed in %d of %d schedules (%s)" %
                       (pid, dev, drifted, total, "; ".join(notes[:3])[:900]))
        if not nviol and not other and (dev + drifted) * 20 > total:
            raise vlib.Inconclusive("the real dispatcher does not follow Dispatch.tla in %d of %d schedules and no property clause is violated: "
                                    "the binding (or the model) is wrong: %s" % (dev + drifted, total, "; ".join(notes[:5])[:1500]))
    for k in ("api_failed", "too_few_workers"):
        if cnt.get(k, 0):
            raise vlib.Inconclusive("schedule replay: %s in %d schedules" % (k, cnt[k]))
    if not nviol and not other:
        missing = [f for f in REQUIRED_FEATURES if cnt.get("f_" + f, 0) == 0]
        if missing:
            raise vlib.Inconclusive("schedule replay never drove: %s" % ", ".join(missing))
        if cnt.get("steps_compared", 0) < 5 * cnt.get("lockstep", 0) or cnt.get("lockstep", 0) < total * 0.9:
            raise vlib.Inconclusive("only %d of %d schedules were replayed in lock step" % (cnt.get("lockstep", 0), total))

    feats = {k[2:]: x for k, x in sorted(cnt.items()) if k.startswith("f_")}
    return {
        "schedules": total, "schedules_per_cfg": per_cfg, "steps": sum(res["steps"] for _, res in results),
        "steps_compared": cnt.get("steps_compared", 0), "lockstep_schedules": cnt.get("lockstep", 0),
        "deviating_schedules": dev, "schedules_with_drift": drifted,
        "drift": {k[6:]: x for k, x in sorted(cnt.items()) if k.startswith("drift_")},
        "in_order_schedules": cnt.get("in_order", 0),
        "insert_raced_destroying_flush": feats.get("insert_raced_destroying_flush", 0),
        "create_raced_create": feats.get("create_raced_create", 0),
        "maint_raced_recreation": feats.get("maint_raced_recreation", 0),
        "features": feats,
        "f3_schedules": f3, "f3_by_clause": {k[3:]: x for k, x in sorted(cnt.items()) if k.startswith("F3_")},
        "violations_reported": nviol, "findings_of_other_property": other,
        "unjudged_out_of_order_after_deviation": cnt.get("unjudged_out_of_order_after_deviation", 0),
        "tlc_states": vlib_states, "tlc_transitions": vlib_trans,
        "samples": [results[0][1]["samples"][0]] if results and results[0][1]["samples"] else [],
        "rule": "one case = one complete schedule of Dispatch.tla (Recv/Load/Insert/Create/Store of 2-3 workers over 2-4 versions of one alert, "
                "FlushBegin/FlushNotify/FlushEnd of up to 2 flushes, MaintCheck/MaintStop/MaintDelete of one sweep) executed step by step on the real "
                "dispatcher; non-trivial = the schedule contains at least one race (insert vs destroying flush, create vs create, maintenance vs re-creation, ...)",
        "bounds": "exhaustive up to 1-4 preemptions per schedule (see spec/mc/Gen_Dispatch*.cfg), simulation without preemption bound (seed %d)" % seed,
    }


def replay_dispatch_schedule(pid, path, v, resolved="2"):
    """Replay one stored schedule (artefact of a violation)."""
    wd = os.path.join(vlib.OUT, pid)
    os.makedirs(wd, exist_ok=True)
    binp = vlib.go_build_test(pid, "dsched")
    data = json.load(open(path))
    inp = os.path.join(wd, "dsched_replay_in.jsonl")
    with open(inp, "w") as f:
        f.write(json.dumps(data) + "\n")
    last = max(s["v"] for s in data["steps"])
    if last >= 4:
        resolved = "2,4"
    out = os.path.join(wd, "dsched_replay_out.json")
    rc, txt = vlib.go_run_test(binp, "TestDsched$", ["-in", inp, "-out", out, "-n", "0"], env_extra={"VERIF_RESOLVED": resolved})
    if rc != 0:
        raise vlib.Inconclusive("schedule replay failed:\n" + txt[-2000:])
    r = vlib.load_result(out)
    open_f3 = [f for f in vlib.known_findings("C14") if f["key"] == "F3"]
    for m in r["mismatches"]:
        if m.get("class") == "F3":
            if pid == "C14" and not open_f3:
                v.violation("replay: an older update overwrote a newer one", [path])
        elif m.get("class") in OWNED.get(pid, set()):
            v.violation("replay: %s: %s" % (m.get("class"), m["what"]), [path])
    return r
