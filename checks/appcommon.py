"""Whole-program stage: 1-3 COMPLETE in-process Alertmanagers (app.New(Options) + App.Start - the real
app.setup wiring: timeoutFunc, clusterWait, settle gating, snapshot files and maintenance goroutines,
HTTP API server, real webhook notifier) clustered by real memberlist over loopback, driven through the
real HTTP API in real time by scenarios that TLC generates from spec/AppSys.tla.

    run_app_system(pid, tier, v) -> dict of coverage counters
        pid "C08": AtLeastOnce (cluster scenarios), NoDuplicateWhenHealthy, ReadyEventually
        pid "C11": SilenceSurvivesRestart, NoRepeatAfterRestart
        pid "C01": AtLeastOnce in single-instance scenarios
        pid "C17": configuration reloads of a running instance (POST /-/reload, App.Reload): RejectedReloadKeepsConfig,
                   StatusShowsConfigInForce, AcceptedReloadTakesEffect
        pid "C07": ReceiversAgree (receivers of GET /api/v2/alerts against the dispatcher's groups) around reloads
      steps: build harness/appsys; exhaustive TLC runs of MC_AppSys*.cfg (the defective deadline rule MUST
      violate AtLeastOnce, the left-out shutdown snapshot / log gossip / Settle MUST violate their
      property); Gen_AppSys scenarios (TLC -simulate); coverage-directed choice for `pid`; replay on the
      real program (direction A) recording an ndjson trace; Trace_AppSys validates the trace with TLC
      against AppSys's properties with real-time tolerances (direction B).  v.violation only for clauses
      owned by `pid`; doubts are inconclusive cases (Inconclusive when more than 25 % of the cases are).
    model_check(pid, tier) -> (states, transitions, per-configuration dict)
    replay(pid, path, v)   re-runs the scenario of a stored artefact

Verdict policy (no false alarms) is described at the top of spec/mc/Trace_AppSys.tla and
harness/appsys/appsys_test.go."""
import json, os, re, hashlib, random, time, concurrent.futures
from lib import vlib
from lib.vlib import log

OWNED = {
    "C08": ("C08_AtLeastOnce", "C08_NoDuplicateWhenHealthy", "C08_ReadyEventually"),
    "C11": ("C11_SilenceSurvivesRestart", "C11_NoRepeatAfterRestart"),
    "C01": ("C01_AtLeastOnce",),
    "C17": ("C17_RejectedReloadKeepsConfig", "C17_StatusShowsConfigInForce", "C17_AcceptedReloadTakesEffect"),
    "C07": ("C07_ReceiversAgree",),
}

# (configuration, timeout s, invariant that MUST be violated or None, tier)
MC = [("MC_AppSys.cfg", 120, None, "quick"), ("MC_AppSys_healthy.cfg", 120, None, "quick"),
      ("MC_AppSys_solo.cfg", 120, None, "quick"), ("MC_AppSys_solo_kill.cfg", 120, None, "quick"),
      ("MC_AppSys_defective.cfg", 120, "AtLeastOnce", "quick"), ("MC_AppSys_nosnap.cfg", 120, "SilenceSurvivesRestart", "quick"),
      ("MC_AppSys_nogossip.cfg", 120, "NoDuplicateWhenHealthy", "quick"), ("MC_AppSys_nosettle.cfg", 120, "ReadyEventually", "quick"),
      ("MC_AppSys_reload.cfg", 120, None, "quick"), ("MC_AppSys_reload_stopfirst.cfg", 120, "AtLeastOnce", "quick"),
      ("MC_AppSys_reload_apifirst.cfg", 120, "StatusShowsConfigInForce", "quick"), ("MC_AppSys_reload_apifirst_rcv.cfg", 120, "ReceiversAgree", "quick"),
      ("MC_AppSys_reload_t.cfg", 900, None, "thorough"),
      ("MC_AppSys_order.cfg", 300, None, "thorough"), ("MC_AppSys_order_defective.cfg", 300, "AtLeastOnce", "thorough"),
      ("MC_AppSys_faults.cfg", 300, None, "thorough"), ("MC_AppSys_3.cfg", 600, None, "thorough"),
      ("MC_AppSys_solo_t.cfg", 600, None, "thorough"), ("MC_AppSys_solo_kill_t.cfg", 600, None, "thorough"),
      ("MC_AppSys_faults_kill_t.cfg", 600, None, "thorough")]
# which quick configurations matter to which property (the others are run by the property that owns them)
MC_FOR = {"C08": ("MC_AppSys.cfg", "MC_AppSys_healthy.cfg", "MC_AppSys_defective.cfg", "MC_AppSys_nogossip.cfg", "MC_AppSys_nosettle.cfg",
                  "MC_AppSys_order.cfg", "MC_AppSys_order_defective.cfg", "MC_AppSys_faults.cfg", "MC_AppSys_3.cfg", "MC_AppSys_faults_kill_t.cfg"),
          "C11": ("MC_AppSys_solo.cfg", "MC_AppSys_solo_kill.cfg", "MC_AppSys_nosnap.cfg", "MC_AppSys_solo_t.cfg", "MC_AppSys_solo_kill_t.cfg",
                  "MC_AppSys_faults.cfg", "MC_AppSys_faults_kill_t.cfg"),
          "C01": ("MC_AppSys_solo.cfg", "MC_AppSys_defective.cfg", "MC_AppSys_solo_t.cfg"),
          "C17": ("MC_AppSys_reload.cfg", "MC_AppSys_reload_stopfirst.cfg", "MC_AppSys_reload_apifirst.cfg", "MC_AppSys_reload_t.cfg"),
          "C07": ("MC_AppSys_reload.cfg", "MC_AppSys_reload_apifirst_rcv.cfg")}

GEN = {"rule1": "Gen_AppSys_rule1.cfg", "rule": "Gen_AppSys_rule.cfg", "order": "Gen_AppSys_order.cfg", "solo": "Gen_AppSys_solo.cfg", "solo1": "Gen_AppSys_solo1.cfg", "two1": "Gen_AppSys_two1.cfg", "reload": "Gen_AppSys_reload.cfg",
       "two": "Gen_AppSys_two.cfg", "three": "Gen_AppSys_three.cfg"}
GEN_FOR = {"C08": ("rule1", "rule", "order", "two", "three"), "C11": ("solo1", "two1", "solo"), "C01": ("solo", "solo1"), "C17": ("reload",), "C07": ("reload",)}


def model_check(pid, tier, only=None):
    """Exhaustive TLC runs of AppSys.tla.  Returns (distinct, generated, per-cfg dict)."""
    todo = [m for m in MC if (m[3] == "quick" or tier == "thorough") and m[0] in MC_FOR.get(pid, ()) and (only is None or m[0] in only)]

    def one(m):
        cfg, to, expect, _ = m
        return m, vlib.tlc(pid, "mca_" + cfg[:-4], "MC_AppSys", cfg, workers=2 if m[3] == "quick" else 6, timeout=to)
    with concurrent.futures.ThreadPoolExecutor(max_workers=4 if tier != "thorough" else 3) as ex:
        rs = list(ex.map(one, todo))
    states = trans = 0
    per = {}
    for (cfg, to, expect, _), r in rs:
        if expect:
            if r.violated != expect:
                raise vlib.Inconclusive("%s: the defective variant of AppSys.tla must violate %s but TLC reports %s / %s (see %s)" % (
                    cfg, expect, r.violated, r.error, r.stdout_path))
            per[cfg] = {"violates": expect, "as_expected": True, "distinct": r.distinct}
            log("  %s: %s violated, as it must be (the invariant discriminates), %.1fs" % (cfg, expect, r.wall))
            continue
        vlib.tlc_must_pass(r, cfg)
        log("  %s: %d states generated, %d distinct, depth %d, %.1fs" % (cfg, r.generated, r.distinct, r.depth, r.wall))
        states += r.distinct
        trans += r.generated
        per[cfg] = {"distinct": r.distinct, "generated": r.generated, "depth": r.depth}
    return states, trans, per


def _gen(pid, name, cfg, out_path, num, seed, timeout):
    """TLC -simulate (one worker: with a fixed seed every worker draws the same sequence)."""
    raw = out_path + ".raw"
    r = vlib.tlc(pid, "gena_" + name, "Gen_AppSys", cfg, workers=1, timeout=timeout, simulate="num=%d" % num, depth=120,
                 marker="@@H ", payload_to=raw, extra=["-seed", str(seed)])
    if r.violated:
        raise vlib.Inconclusive("Gen %s: %s violated on the specification during simulation (see %s)" % (cfg, r.violated, r.stdout_path))
    if (r.error and not r.timed_out) or (r.rc != 0 and not r.timed_out):
        raise vlib.Inconclusive("Gen %s: TLC failed: %s (see %s)" % (cfg, r.error, r.stdout_path))
    seen, out = set(), []
    with open(raw) as f:
        for line in f:
            cut = line.rfind('{"e":')      # Emit is evaluated on every candidate successor of the last step
            h = hashlib.sha1(line[:cut].encode()).digest()
            if h in seen:
                continue
            seen.add(h)
            out.append(line)
    os.remove(raw)
    return out


ENV = ("start", "stop", "kill", "post", "silence", "expire", "reload")


def features(h, horizon):
    """Shape of one scenario within the replayed horizon: which property clauses it can discriminate."""
    f = set()
    c = h[0]["e"]
    n = len(c["inst"])
    big = max(c["gi"], c["mint"])
    f.add("solo" if c["st"] == 0 else "cluster%d" % n)
    sent_by = {}        # (i, a) -> model time of i's delivery of a
    silenced = {}       # (i, a) -> time
    downs = {}          # i -> (time, kind, sends before, silences before)
    restarted = {}      # i -> info of the stop that preceded the start
    rejected, accepted, fresh, freshgood = {}, {}, {}, set()
    last_env = 0
    posted = False
    for k in range(1, len(h)):
        x, prev = h[k], h[k - 1]
        if x["now"] > horizon:
            break
        e = x["e"]
        op = e["op"]
        if op in ENV:
            last_env = x["now"]
        if op == "dedup" and e["sends"]:
            i, a = e["i"], e["a"]
            sent_by[(i, a)] = x["now"]
            p = prev["pos"][i - 1]
            if p >= 1 and p * c["pt"] >= big and c["gi"] >= c["mint"]:
                f.add("deadline_rule")      # delivered by a later-positioned instance whose wait exceeds group_interval >= MinTimeout
            if p >= 1:
                f.add("late_position_send")
            if i in restarted:
                f.add("send_after_restart")
        if op == "dedup" and not e["sends"]:
            i, a = e["i"], e["a"]
            others = [j for j in range(1, n + 1) if j != i and (j, a) in sent_by]
            if others and x["healthy"]:
                f.add("nodup")              # a healthy cluster in which a second instance reaches Dedup covered by a peer's entry
            if i in restarted and (i, a) in restarted[i]["sends"] and x["now"] - sent_by[(i, a)] <= (3 * c["ri"]) // 4 - 6:
                f.add("norepeat")           # after a restart the instance reaches Dedup for what it had sent shortly before
                if restarted[i]["kind"] == "kill":
                    f.add("norepeat_kill")
        if op == "flush":
            i, a = e["i"], e["a"]
            if i in restarted and (i, a) in restarted[i]["sils"] and prev["sv"][i - 1][a] == 1:
                f.add("silence_restart")    # after a restart a flush of the alert silenced before it
                if restarted[i]["kind"] == "kill":
                    f.add("silence_restart_kill")
        if op == "silence":
            silenced[(e["i"], e["a"])] = x["now"]
        if op in ("stop", "kill"):
            i = e["i"]
            f.add(op)
            keepn = [(i, a) for (j, a) in sent_by if j == i and (op == "stop" or max(prev["snapN"][i - 1][a].values()) >= 0)]
            keeps = [(i, a) for (j, a) in silenced if j == i and prev["sv"][i - 1][a] == 1 and (op == "stop" or prev["snapS"][i - 1][a] == 1)]
            downs[i] = {"kind": op, "sends": set(keepn), "sils": set(keeps)}
        if op == "start":
            i = e["i"]
            if i in downs:
                restarted[i] = downs[i]
                f.add("restart")
            if posted:
                f.add("late_start")
        if op == "post":
            posted = True
            if len(e["to"]) < len([1 for l in prev["life"] if l == "up"]):
                f.add("partial_post")
        if op == "reload":
            i, kind = e["i"], e["kind"]
            f.add("reload_" + kind)
            if e.get("ov"):
                f.add("reload_overlapped")
            if kind != "good":
                rejected[i] = {"kind": kind, "c": e["c"], "had_delivery": any(j == i for (j, _) in sent_by), "held": set(prev["has"][i - 1])}
                if prev["has"][i - 1] and kind == "badapply":
                    f.add("alerts_shown_after_apply_refusal")      # API receivers vs groups can be compared (C07)
            else:
                rejected.pop(i, None)
                accepted[i] = {"c": e["c"], "changed": e["c"] != prev["cfg"][i - 1]}
        if op == "post":
            for i in e["to"]:
                if i in rejected and e["a"] not in rejected[i]["held"]:
                    fresh[(i, e["a"])] = rejected[i]
                    if rejected[i]["kind"] == "badapply":
                        f.add("alerts_shown_after_apply_refusal")
                if i in accepted and accepted[i]["changed"]:
                    freshgood.add((i, e["a"]))
        if op == "dedup" and e["sends"]:
            i, a = e["i"], e["a"]
            if (i, a) in fresh:
                f.add("fresh_alert_after_refused_" + fresh[(i, a)]["kind"])      # the old routing must still work
                if fresh[(i, a)]["had_delivery"]:
                    f.add("fresh_alert_after_refused_%s_with_earlier_delivery" % fresh[(i, a)]["kind"])
            if (i, a) in freshgood:
                f.add("fresh_alert_after_accepted_reload")
        if op == "timeout":
            f.add("flush_timeout")
        if op == "settled":
            f.add("flush_before_ready")
        if op == "expire":
            f.add("expire")
    f.add("last_env_%s" % ("early" if last_env <= horizon // 2 else "late"))
    return f, last_env


QUOTA = {   # feature, share of the cases
    "C08": [("deadline_rule", 0.3), ("nodup", 0.3), ("late_start", 0.1), ("stop", 0.1), ("kill", 0.1), ("flush_before_ready", 0.1)],
    "C11": [("norepeat", 0.3), ("silence_restart", 0.3), ("norepeat_kill", 0.15), ("silence_restart_kill", 0.15), ("restart", 0.1)],
    "C01": [("solo", 1.0), ("expire", 0.2), ("restart", 0.3)],
    "C17": [("fresh_alert_after_refused_badapply_with_earlier_delivery", 0.4), ("reload_overlapped", 0.3), ("fresh_alert_after_refused_badload", 0.15),
            ("fresh_alert_after_accepted_reload", 0.25)],
    "C07": [("alerts_shown_after_apply_refusal", 0.8), ("fresh_alert_after_accepted_reload", 0.2)],
}


def select(pid, lines, total, seed, horizon, limit_end=None):
    """Coverage-directed choice among the TLC scenarios: fill the quotas, then take the rest in order."""
    rnd = random.Random(seed)
    feats = []
    for ln in lines:
        h = json.loads(ln)
        f, last_env = features(h, horizon)
        feats.append((ln, f, last_env))
    rnd.shuffle(feats)
    if limit_end is not None:
        # quick tier: a scenario runs until its last environment step + group_wait + the highest position's wait
        # + 1.5 s (and at least to the horizon); keep those that are over by limit_end
        def ends(x):
            c = json.loads(x[0])[0]["e"]
            return x[2] + c["gw"] + (len(c["inst"]) - 1) * c["pt"] + 2
        feats = [x for x in feats if ends(x) <= limit_end]
    used = []
    for feat, share in QUOTA[pid]:
        want = max(1, int(round(share * total)))
        got = sum(1 for i in used if feat in feats[i][1])
        for i, (ln, f, _) in enumerate(feats):
            if got >= want or len(used) >= total:
                break
            if i not in used and feat in f:
                used.append(i)
                got += 1
    for i in range(len(feats)):
        if len(used) >= total:
            break
        if i not in used:
            used.append(i)
    return [feats[i] for i in used]


def _clip(txt, n=3000):
    """Head and tail of a failure output: the head names the cause (panic / fatal error / timeout message), the tail the last goroutine."""
    return txt if len(txt) <= 2 * n else txt[:n] + "\n[... %d characters left out ...]\n" % (len(txt) - 2 * n) + txt[-n:]


def _run(pid, binp, inp, out, trace, par, budget, horizon, timeout):
    args = ["-in", inp, "-out", out, "-trace", trace, "-par", str(par), "-budget", str(budget), "-horizon", str(horizon),
            "-persistwait=%s" % ("true" if pid == "C11" else "false")]
    first = None
    for attempt in (1, 2):
        for f in (out, trace):
            if os.path.exists(f):
                os.remove(f)
        rc, txt = vlib.go_run_test(binp, "TestReplay$", args, timeout=timeout)
        if rc == 0 and os.path.exists(out):
            if first is not None:
                log("  whole program: the first run of the test binary ended with rc %s, the second one finished; output of the first:\n%s" % (first[0], _clip(first[1], 1500)))
            return vlib.load_result(out)
        log_path = os.path.join(vlib.OUT, pid, "appsys_failed_run_%d.txt" % attempt)
        try:
            open(log_path, "w").write(txt)
        except OSError:
            pass
        if first is None:
            first = (rc, txt)
    # a stop of the test binary is never a verdict here (global timeout, harness trouble, runtime fatal error)
    raise vlib.Inconclusive("whole-program harness did not finish twice (rc %s, then rc %s; full outputs in %s):\n--- first run ---\n%s\n--- second run ---\n%s" % (
        first[0], rc, os.path.join(vlib.OUT, pid, "appsys_failed_run_*.txt"), _clip(first[1]), _clip(txt)))


def _validate(pid, trace, name="trace_appsys"):
    """Direction B: TLC evaluates AppSys's properties on the recorded runs.  Returns (tlc result, notes)."""
    tmp = os.path.join(vlib.OUT, pid, "trace.ndjson")
    if os.path.abspath(trace) != os.path.abspath(tmp):
        with open(trace) as f, open(tmp, "w") as o:
            o.write(f.read())
    r = vlib.tlc(pid, name, "Trace_AppSys", "Trace_AppSys.cfg", workers=1, timeout=900, files=[tmp])
    txt = open(r.stdout_path, errors="replace").read()
    m = re.search(r'^"@@V (.*)"$', txt, re.M)
    if r.timed_out or not m:
        raise vlib.Inconclusive("Trace_AppSys gave no verdict: %s (see %s)" % (r.error, r.stdout_path))
    if re.search(r'"@@REJECT"', txt) or r.error or r.rc != 0:
        raise vlib.Inconclusive("Trace_AppSys rejected the trace shape or failed: %s (see %s)" % (r.error, r.stdout_path))
    return r, json.loads(json.loads('"' + m.group(1) + '"'))


def _judge(pid, v, notes, trace, wd, tag, chosen=None):
    """Violations owned by pid -> v.violation; doubts -> set of inconclusive runs."""
    lines = open(trace).read().splitlines()
    by_run = {}
    for ln in lines:
        by_run.setdefault(json.loads(ln)["run"], []).append(ln)
    mine = OWNED.get(pid, ())
    nv, reported, doubts, others = 0, set(), {}, {}
    for x in notes:
        run, clause = x["run"], x["clause"]
        if x["kind"] == "doubt":
            doubts.setdefault(run, []).append("%s %s" % (clause, json.dumps(x.get("detail"))[:200]))
            continue
        if clause not in mine:
            others[clause] = others.get(clause, 0) + 1      # the other property's clause: reported when that property runs
            continue
        nv += 1
        if (run, clause) in reported or len(reported) >= 8:
            continue
        reported.add((run, clause))
        rp = os.path.join(wd, "%s_%s_%s.json" % (tag, run, clause))
        case = int(run[1:]) if run[1:].isdigit() else -1
        art = {"appsys_scenario": json.loads(chosen[case][0]) if chosen and 0 <= case < len(chosen) else None,
               "clause": clause, "detail": x.get("detail"), "trace": [json.loads(l) for l in by_run.get(run, [])]}
        json.dump(art, open(rp, "w"))
        v.violation("whole program (app.New/Start, %s instance(s), real HTTP API + cluster + webhook), run %s: %s violated at t=%s ms: %s" % (
            _n(by_run.get(run)), run, clause, x["t"], json.dumps(x.get("detail"))[:700]), [rp])
    return nv, doubts, others


def _n(run_lines):
    for l in run_lines or []:
        e = json.loads(l)
        if e["ev"] == "cfg":
            return e["n"]
    return "?"


def run_app_system(pid, tier, v):
    thorough = tier == "thorough"
    wd = os.path.join(vlib.OUT, pid)
    os.makedirs(wd, exist_ok=True)
    seed = vlib.seed()
    t0 = time.time()
    horizon = 40 if thorough else 22
    total = {"C08": 90, "C11": 60, "C01": 36, "C17": 60, "C07": 40}[pid] if thorough else {"C08": 10, "C11": 8, "C01": 5, "C17": 8, "C07": 5}[pid]
    num = 1200 if thorough else 200
    # build, model checking and generation side by side
    with concurrent.futures.ThreadPoolExecutor(max_workers=3) as ex:
        fb = ex.submit(vlib.go_build_test, pid, "appsys")
        fm = ex.submit(model_check, pid, tier)
        fg = [(name, ex.submit(_gen, pid, name, GEN[name], os.path.join(wd, "gena_%s.jsonl" % name), num, seed, 600 if thorough else 120))
              for name in GEN_FOR[pid]]
        binp = fb.result()
        mc = fm.result()
        gens = [(name, f.result()) for name, f in fg]
    if min(len(x) for _, x in gens) < (120 if thorough else 40):      # the one-post family has few distinct scenarios
        raise vlib.Inconclusive("Gen_AppSys produced too few scenarios: %s" % [(n, len(x)) for n, x in gens])
    lines = []
    for k in range(max(len(x) for _, x in gens)):       # interleave the families
        for _, x in gens:
            if k < len(x):
                lines.append(x[k])
    chosen = select(pid, lines, total, seed, horizon, None if thorough else horizon + 3)
    inp = os.path.join(wd, "appsys_scenarios.jsonl")
    with open(inp, "w") as f:
        for ln, _, _ in chosen:
            f.write(ln if ln.endswith("\n") else ln + "\n")
    shape = {}
    for _, fs, _ in chosen:
        for x in fs:
            shape[x] = shape.get(x, 0) + 1
    t1 = time.time()
    out = os.path.join(wd, "appsys_replay.json")
    trace = os.path.join(wd, "appsys_trace.ndjson")
    par = 10 if thorough else total
    r = _run(pid, binp, inp, out, trace, par, 600 if thorough else 10, horizon, 900 if thorough else 400)
    t2 = time.time()
    tl, notes = _validate(pid, trace)
    nv, doubts, others = _judge(pid, v, notes, trace, wd, "appsys", chosen)
    c = r["counters"]
    cases = r["cases"]
    inc = len(doubts)
    log("  whole program (%s): %d scenarios on real app.App clusters (%d skipped), %d instance starts, %d stops, %d kills, %d posts, %d silences; "
        "%d deliveries; model agreement %d / drift %d; gossip latency median %s ms, max %s ms; %d runs extended; %d trace events, %d states validated; "
        "%d inconclusive cases, %d violations of %s%s  [build+MC+gen %.0fs, replay %.0fs, validation %.0fs]" % (
            tier, cases, c.get("skipped", 0), c.get("op_start", 0), c.get("op_stop", 0), c.get("op_kill", 0), c.get("op_post", 0), c.get("op_silence", 0),
            c.get("deliveries", 0), c.get("model_agreement", 0), c.get("model_drift", 0), c.get("gossip_latency_ms_median", "-"),
            c.get("gossip_latency_ms_max", "-"), c.get("extended_runs", 0), vlib.count_lines(trace), tl.distinct, inc, nv, pid,
            (" (clauses of other properties: %s)" % others) if others else "", t1 - t0, t2 - t1, time.time() - t2))
    if not nv:
        # on a loaded machine fewer scenarios fit into the time budget: what was replayed still counts
        if cases < min(total * 0.6, 5 if tier != "thorough" else 20):
            raise vlib.Inconclusive("whole program: only %d of %d scenarios were replayed within the time budget" % (cases, total))
        if inc > 0.25 * cases:
            why = ["%s: %s" % (k, "; ".join(x)[:300]) for k, x in list(doubts.items())[:6]]
            raise vlib.Inconclusive("whole program: %d of %d scenarios inconclusive: %s | %s" % (inc, cases, " | ".join(why), "; ".join(r.get("notes") or [])[:1200]))
        need = {"C08": ["deadline_rule", "nodup"], "C11": ["norepeat", "silence_restart"], "C01": ["solo"],
                "C17": ["fresh_alert_after_refused_badapply_with_earlier_delivery", "reload_overlapped", "fresh_alert_after_accepted_reload"],
                "C07": ["alerts_shown_after_apply_refusal"]}[pid]
        missing = [k for k in need if not shape.get(k)]
        if missing or not c.get("deliveries"):
            raise vlib.Inconclusive("whole program: the replayed scenarios never reached: %s (deliveries %s)" % (missing, c.get("deliveries")))
    return {
        "scenarios_replayed": cases,
        "scenarios_skipped_for_time": c.get("skipped", 0),
        "scenarios_retried": c.get("scenarios_retried_after_start_failure", 0),
        "scenario_shapes_selected": shape,
        "steps": r["steps"],
        "instance_starts": c.get("op_start", 0), "clean_stops": c.get("op_stop", 0), "kills": c.get("op_kill", 0),
        "posts": c.get("op_post", 0), "silences": c.get("op_silence", 0), "silence_expiries": c.get("op_expire", 0),
        "reloads": {"accepted_kind": c.get("op_reload_good", 0), "refused_by_load": c.get("op_reload_badload", 0),
                    "refused_at_apply": c.get("op_reload_badapply", 0), "overlapped_by_status_requests": c.get("op_reload_overlapped", 0),
                    "status_requests_overlapping": c.get("status_requests_overlapping_reloads", 0)},
        "webhook_deliveries": c.get("deliveries", 0),
        "runs_agreeing_with_model_deliveries": c.get("model_agreement", 0),
        "runs_drifting_from_model_deliveries": c.get("model_drift", 0),
        "runs_extended_by_the_bound": c.get("extended_runs", 0),
        "gossip_latency_ms": {"median": c.get("gossip_latency_ms_median"), "max": c.get("gossip_latency_ms_max"), "probes": c.get("gossip_latency_probes", 0)},
        "trace_events": vlib.count_lines(trace),
        "trace_states": tl.distinct,
        "inconclusive_cases": inc,
        "inconclusive_notes": ["%s: %s" % (k, x[0]) for k, x in list(doubts.items())[:5]],
        "harness_notes": (r.get("notes") or [])[:6],
        "clauses_of_other_properties": others,
        "violations_reported": nv,
        "mc": {"states": mc[0], "transitions": mc[1], "per_cfg": mc[2]},
        "bounds": "AtLeastOnce: settle timeout + group_wait + 3 x (max(group_interval, 10 s) + position x peer_timeout) + position x peer_timeout + 10 s; "
                  "NoDuplicate: gap in (max(10 x measured gossip latency, 300 ms), repeat_interval / 2]; ReadyEventually: settle timeout + 10 s",
        "samples": r.get("samples", [])[:1],
    }


ASSUMPTIONS = [
    "whole-program stage: the instances run in one process (app.New + App.Start per instance, own registry, data directory, configuration file, "
    "cluster label, peer name am<i>-<generation>); a kill is a frozen copy of the data directory at the kill instant followed by a teardown, so peers "
    "see a leave, not a failed probe (failure detection: real-peer stage); the webhook receiver answers 200 after 1.2 s (a delivery has a duration), "
    "a post 'to all' reaches the instances one after the other, 0.6 s apart",
    "whole-program stage: real time with tolerances - a missing notification is a violation only after settle timeout + group_wait + 3 flush cycles "
    "at the instance's position + its wait + 10 s during which every observation (4 per second) showed the instance ready (GET /-/ready 200, cluster "
    "status ready), at one position, listing the alert unsilenced, and only if a control alert posted to every running instance during the extension "
    "was delivered; a duplicate only in fault-free runs with complete member lists, farther apart than 10 x the gossip latency measured in that run "
    "(>= 300 ms; + delivery duration + post stagger unless the alert was posted exactly once, to all instances) and closer than repeat_interval / 2; "
    "a repeat after a restart only within 3/4 repeat_interval and only if the first delivery reached the receiver >= 4.2 s before a clean stop "
    "(maintenance interval + 5.2 s before a kill); a lost silence only if acknowledged before a clean stop (maintenance interval + 5.2 s before a "
    "kill); anything else is an inconclusive case",
    "whole-program stage, reloads (C17 / C07): two configurations that differ in the root receiver (hook-A / hook-B, webhook path /hook/A|B) and in "
    "global.resolve_timeout; a reload = the file rewritten + POST /-/reload or App.Reload() (Options.Reload is fire-and-forget: its end cannot be "
    "observed); kinds: good, refused by config.Load (undefined receiver / not YAML), refused at apply time (tracing tls ca_file or webhook tls ca_file "
    "that does not exist - the two fallible steps of app/reloader.go after the routing tree is built; a template that does not parse fails before it and "
    "is not generated); the configuration in force = the start's or the last reload answered 200; observations are made only while no reload request is "
    "in flight; a delivery to the receiver of another configuration is a violation unless that one was in force until 4.2 s ago or is the one of the "
    "reload in flight; a missing notification after a reload needs as control evidence an earlier delivery of the same instance to that receiver and a "
    "direct request answered by the receiver during the extension; overlapped reloads use 1500 filler routes and ONE status request at 70 % of the "
    "previous reload's duration (calibrated: TestOverlapCalibration)",
    "whole-program stage: group_interval 10 s / peer_timeout 12 s where the flush deadline rule matters (notify.MinTimeout is a 10 s constant), "
    "otherwise 3 s / 3 s; repeat_interval 35 s / 20 s; group_wait 1 s; gossip interval 20 ms; push-pull 10 s; settle timeout 5 s; data maintenance "
    "interval 4 s in restart scenarios; resolve_timeout 3 min (no alert resolves inside a scenario)",
]


def replay(pid, path, v):
    data = json.load(open(path))
    wd = os.path.join(vlib.OUT, pid)
    os.makedirs(wd, exist_ok=True)
    binp = vlib.go_build_test(pid, "appsys")
    inp = os.path.join(wd, "appsys_replay_in.jsonl")
    open(inp, "w").write(json.dumps(data["appsys_scenario"]) + "\n")
    trace = os.path.join(wd, "appsys_replay_trace.ndjson")
    _run(pid, binp, inp, os.path.join(wd, "appsys_replay_out.json"), trace, 1, 600, 40, 900)
    _, notes = _validate(pid, trace, "trace_appsys_replay")
    nv, _, _ = _judge(pid, v, notes, trace, wd, "appsys_replay", [(json.dumps(data["appsys_scenario"]), set(), 0)])
    return nv
