"""C01 - notify only on change or after repeat_interval; repeats arrive on time."""
import json
from lib import vlib
from checks import e2ecommon

PID = "C01"


def run(tier, v):
    e = e2ecommon.run_e2e(PID, tier, v)
    drift = e2ecommon.judge(PID, v, e, {"C01"})
    ok_attempts = sum(1 for l in e["lines"] if '"ev":"attempt"' in l and '"outcome":"ok"' in l)
    if ok_attempts < 50:
        raise vlib.Inconclusive("too few delivered notifications (%d)" % ok_attempts)
    cov = e2ecommon.coverage(e, "one case = one scenario run; non-trivial = number of delivered notifications each judged by Justified(prev, cur) "
                                "(new firing alert / new resolved alert with send_resolved / repeat_interval elapsed / cycle break)", ok_attempts)
    cov["drift"] = drift
    # the whole program (app.App instances over loopback, real HTTP API, real webhook notifier): AtLeastOnce
    from checks import appcommon
    cov["app_system"] = appcommon.run_app_system(PID, tier, v)
    return "model_checking", cov, e2ecommon.ASSUMPTIONS + appcommon.ASSUMPTIONS


def replay(path, v):
    if "appsys_" in path:
        from checks import appcommon
        return appcommon.replay(PID, path, v)
    raise vlib.Inconclusive("replay of a recorded scenario: run `bin/check C01` with the VERIF_SEED printed in the evidence")
