"""C17 - config loading is total, accepts only well-formed configs, never leaks secrets.

Spec: spec/Config.tla (abstract configurations, WellFormed = the statement, Accepts = the checks
of the code, Printed/RoundTripOK = the textual form, the coordinator).  MC: MC_Config
(Accepts => WellFormed, round trip with its known gap) and MC_Config_coord (a rejected reload
keeps the running configuration).  Gen: every configuration within the bounds (valid ones and
valid ones with one catalogue defect) and coordinator reload sequences are printed by TLC and
replayed on the real config.Load / Config.String() / dispatch.NewRoute / config.Coordinator.
Bodies (SpecBody of MC_Config, Gen_Config_body / Sim_Config_body): time interval bodies built by
TLC from the boundary shapes of every field that has a parser and a marshaller of its own (tokens
-> text -> real loader -> values compared with the specification's, Config.String() compared with
the specification's marshaller, round trip judged on the real code), and every secret-bearing
field of spec/mc/Sites_Config.tla in every value shape (plain, templated, from a file, empty)
with canaries, replayed by the same TestReplay.
Secrets: every secret-bearing field found by reflection, canaries, Config.String() and the real
GET /api/v2/status handler.  Robustness: structural corruptions of valid documents only
(arbitrary byte strings are outside what a TLA+ model can enumerate; said in the evidence).

Findings recorded in known_findings.d/C17.json are matched by the class the harness computes
from the failing replay; every class has a canonical reproducer that is run each time."""
import json, os
from lib import vlib
from lib.vlib import log

PID = "C17"

# class computed by harness/c17 -> key in known_findings
CLASS_KEY = {
    "panic_null_route": "C17-PANIC-NULL-ROUTE",
    "panic_null_http_config": "C17-PANIC-NULL-HTTPCONFIG",
    "rt_null_element": "C17-RT-NULL-ELEMENT",
    "rt_empty_group_by": "C17-RT-EMPTY-GROUPBY",
    "rt_empty_regexp": "C17-RT-EMPTY-REGEXP",
    "rt_empty_interval_field": "C17-RT-EMPTY-INTERVAL-FIELD",
    "rt_empty_secret_pointer": "C17-RT-EMPTY-SECRET-POINTER",
}
TEXT = {
    "C17-PANIC-NULL-ROUTE": "config.Load panics on a YAML null element in a `routes:` list",
    "C17-PANIC-NULL-HTTPCONFIG": "config.Load panics when global.http_config is an explicit null and a slack/msteamsv2 receiver inherits it",
    "C17-RT-NULL-ELEMENT": "a YAML null list element is accepted as a zero value; the textual form of the loaded configuration does not load",
    "C17-RT-EMPTY-GROUPBY": "an explicit `group_by: []` is dropped from the textual form; it loads back to a tree that groups differently",
    "C17-RT-EMPTY-REGEXP": "an empty regular expression in match_re is printed as null; the textual form does not load",
    "C17-RT-EMPTY-INTERVAL-FIELD": "an explicit empty time interval field is dropped from the textual form; the reloaded interval matches every instant",
    "C17-RT-EMPTY-SECRET-POINTER": "a rocketchat token / token_id given as the empty string counts as configured, is printed as null, and the textual form does not load",
}
DEFECTS = 22        # size of the defect catalogue of MC_Config.tla (16 of the routing part, 6 of time interval bodies)
BODY_SHAPES = ["end_of_day", "start_of_day", "negative_day", "month_by_name", "month_by_number", "weekdays", "years",
               "location:UTC", "location:Local", "location:Europe/Paris"]


def _env():
    e = {"C17_TESTDATA": os.path.join(vlib.REPO, "config", "testdata")}
    if os.path.isdir("/dev/shm") and os.access("/dev/shm", os.W_OK):
        e["TMPDIR"] = "/dev/shm"       # the coordinator replay writes thousands of small files
    return e


def _run(binp, test, args, out, what, env=None):
    e = _env()
    e.update(env or {})
    rc, txt = vlib.go_run_test(binp, test + "$", args + ["-out", out], env_extra=e)
    if rc != 0:
        if "stack overflow" in txt or "goroutine stack exceeds" in txt:
            return None, txt
        raise vlib.Inconclusive("%s harness failed:\n%s" % (what, txt[-3000:]))
    return vlib.load_result(out), txt


def _gen_sim(name, cfg, out_path, num, seed, workers=8):
    """TLC -simulate seeded by VERIF_SEED; payload lines de-duplicated into out_path."""
    import hashlib
    raw = out_path + ".raw"
    r = vlib.tlc(PID, name, "Gen_Config", cfg, workers=workers, timeout=600, simulate="num=%d" % num, depth=20,
                 extra=["-seed", str(seed)], marker="@@H ", payload_to=raw)
    if r.violated or (r.error and not r.timed_out) or (r.rc != 0 and not r.timed_out):
        raise vlib.Inconclusive("Gen %s: TLC failed: %s %s (see %s)" % (name, r.violated, r.error, r.stdout_path))
    seen, n = set(), 0
    with open(raw) as f, open(out_path, "w") as o:
        for line in f:
            h = hashlib.sha1(line.encode()).digest()
            if h not in seen:
                seen.add(h)
                o.write(line)
                n += 1
    os.remove(raw)
    r.behaviours = n
    return r


class Judge:
    """Turns harness mismatches into violations / known findings / drift."""

    def __init__(self, v, wd, reproduced):
        self.v, self.wd = v, wd
        self.open = {f["key"] for f in vlib.known_findings(PID)}
        self.reproduced = reproduced      # classes whose canonical reproducer still fails
        self.known = {}
        self.drift = {}
        self.nviol = 0

    def take(self, part, res):
        # counters carry every mismatch, the list only the first 50
        for k, n in res["counters"].items():
            if not k.startswith("class:"):
                continue
            cls = k[len("class:"):]
            if cls.startswith("drift_"):
                self.drift[cls] = self.drift.get(cls, 0) + n
        listed = {}
        for m in res["mismatches"]:
            listed.setdefault(m.get("class", ""), []).append(m)
        for cls, ms in listed.items():
            if cls.startswith("drift_"):
                continue
            key = CLASS_KEY.get(cls)
            if key and key in self.open and cls in self.reproduced:
                n = res["counters"].get("class:" + cls, len(ms))
                self.known[key] = self.known.get(key, 0) + n
                continue
            for m in ms[:3]:
                self.nviol += 1
                rp = os.path.join(self.wd, "violation_%s_%d.json" % (part, self.nviol))
                json.dump(m.get("replay"), open(rp, "w"), indent=1)
                rep = m.get("replay") or {}
                doc = rep.get("yaml", "") if isinstance(rep, dict) else ""
                self.v.violation("%s: %s [class %s]%s%s" % (
                    part, m["what"][:900], cls,
                    (" got: " + json.dumps(m.get("got"))[:300]) if m.get("got") is not None else "",
                    ("\n  --- document ---\n  " + doc[:1500].replace("\n", "\n  ")) if doc else ""), [rp])
        # classes that occur beyond the listed 50 and are neither known nor drift
        for k, n in res["counters"].items():
            if k.startswith("class:"):
                cls = k[len("class:"):]
                key = CLASS_KEY.get(cls)
                excused = cls.startswith("drift_") or (key in self.open and cls in self.reproduced)
                if not excused and cls not in listed:
                    self.v.violation("%s: %d mismatches of class %s (beyond the listed ones)" % (part, n, cls), [])

    def finish(self):
        for key in sorted(self.known):
            self.v.known_finding(key, "%s (%s) - reproduced on the real code, %d generated documents" % (key, TEXT[key], self.known[key]))
        for cls in sorted(self.drift):
            self.v.notes.append("DRIFT property=%s %s: %d cases (the real code deviates from spec/Config.tla without contradicting the statement)" % (PID, cls, self.drift[cls]))


def run(tier, v):
    import time
    t0 = time.time()
    wd = os.path.join(vlib.OUT, PID)
    thorough = tier == "thorough"
    seed = vlib.seed()

    # the TLC runs of the body model (small) go on in the background while the routing part is checked
    from concurrent.futures import ThreadPoolExecutor
    pool = ThreadPoolExecutor(max_workers=2)
    gen3 = os.path.join(wd, "gen_body.jsonl")
    gen4 = os.path.join(wd, "gen_body_sim.jsonl")
    os.makedirs(wd, exist_ok=True)
    f_mcb = pool.submit(vlib.tlc, PID, "mc_body", "MC_Config", "MC_Config_body_thorough.cfg" if thorough else "MC_Config_body.cfg",
                        workers=4, timeout=900 if thorough else 240, coverage=True)
    f_g3 = pool.submit(vlib.gen_behaviours, PID, "gen_body", "Gen_Config", "Gen_Config_body_thorough.cfg" if thorough else "Gen_Config_body.cfg",
                       gen3, workers=4, timeout=900)
    f_g4 = pool.submit(_gen_sim, "gen_body_sim", "Sim_Config_body.cfg", gen4, 600 if thorough else 60, seed, 4)

    # 1. the design
    mc = vlib.tlc(PID, "mc", "MC_Config", "MC_Config_thorough.cfg" if thorough else "MC_Config.cfg",
                  workers=8, timeout=900 if thorough else 240, coverage=True)
    vlib.tlc_must_pass(mc, "MC_Config")
    dead = [a for a, (d, g) in mc.coverage.items() if g == 0]
    if dead:
        raise vlib.Inconclusive("MC_Config: actions never taken: %s" % dead)
    mcc = vlib.tlc(PID, "mc_coord", "MC_Config", "MC_Config_coord.cfg", workers=4, timeout=240, coverage=True)
    vlib.tlc_must_pass(mcc, "MC_Config_coord")
    mcb = f_mcb.result()
    vlib.tlc_must_pass(mcb, "MC_Config_body")
    dead = [a for a, (d, g) in mcb.coverage.items() if g == 0]
    if dead:
        raise vlib.Inconclusive("MC_Config_body: actions never taken: %s" % dead)
    log("  [%.0fs]" % (time.time() - t0))
    log("  MC_Config: %d configurations (%d generated), %.1fs; coordinator: %d states (%d generated); "
        "interval bodies and secrets: %d documents (%d generated), %.1fs" %
        (mc.distinct, mc.generated, mc.wall, mcc.distinct, mcc.generated, mcb.distinct, mcb.generated, mcb.wall))

    binp = vlib.go_build_test(PID, "c17")

    # 2. canonical reproducers of the recorded findings
    known, _ = _run(binp, "TestKnown", [], os.path.join(wd, "known.json"), "known-findings")
    reproduced = {k[len("repro:"):] for k in known["counters"] if k.startswith("repro:")}
    open_keys = {f["key"] for f in vlib.known_findings(PID)}
    for cls, key in CLASS_KEY.items():
        if key in open_keys and cls not in reproduced:
            v.notes.append("KNOWN-FINDING-NOT-REPRODUCED: property=%s %s (%s): its canonical reproducer passes; "
                           "documents of this class are judged without excuse in this run" % (PID, key, TEXT[key]))
    J = Judge(v, wd, reproduced)
    J.take("known", known)

    # 3. direction A: configurations printed by TLC, loaded by the real loader
    gen1 = os.path.join(wd, "gen_exh.jsonl")
    g1 = vlib.gen_behaviours(PID, "gen_exh", "Gen_Config", "Gen_Config_thorough.cfg" if thorough else "Gen_Config.cfg",
                             gen1, workers=8, timeout=900)
    gen2 = os.path.join(wd, "gen_sim.jsonl")
    g2 = _gen_sim("gen_sim", "Sim_Config.cfg", gen2, 800 if thorough else 30, seed)
    log("  [%.0fs]" % (time.time() - t0))
    log("  Gen: %d configurations enumerated, %d simulated (deeper edits)" % (g1.behaviours, g2.behaviours))
    if g1.behaviours < 2000 or g2.behaviours < 200:
        raise vlib.Inconclusive("Gen produced too few configurations (%d, %d)" % (g1.behaviours, g2.behaviours))
    # 3b. time interval bodies and secret-bearing fields printed by TLC (SpecBody), same replay
    g3, g4 = f_g3.result(), f_g4.result()
    if g3.behaviours < 3000 or g4.behaviours < 300:
        raise vlib.Inconclusive("Gen produced too few interval bodies / secret documents (%d, %d)" % (g3.behaviours, g4.behaviours))
    # the four replays are independent processes
    jobs = [("exh", gen1, None), ("sim", gen2, None), ("body", gen3, {"C17_ALL_SITES": "1"}), ("body_sim", gen4, None)]
    rpool = ThreadPoolExecutor(max_workers=4)
    futs = [rpool.submit(_run, binp, "TestReplay", ["-in", path], os.path.join(wd, "replay_%s.json" % name), "replay", env)
            for name, path, env in jobs]
    reps, breps = [], []
    for (name, path, env), f in zip(jobs, futs):
        r, _ = f.result()
        reps.append(r)
        if name.startswith("body"):
            breps.append(r)
        J.take("load(%s)" % name, r)
    bc = breps[0]["counters"]
    if bc.get("sites_unknown_to_spec", 0) or bc.get("sites_plain_never_accepted", 0):
        raise vlib.Inconclusive("secret-bearing fields the specification (spec/mc/Sites_Config.tla) or the harness must learn: %s" %
                                [n for n in breps[0].get("notes", []) if n.startswith("UNCOVERED")][:10])
    missing = [sh for sh in BODY_SHAPES if not bc.get("shape:" + sh, 0)]
    stypes = sorted({k.split(":")[1] for k in bc if k.startswith("sec_ok:")})
    missing += ["%s:%s" % (t, sh) for t in stypes for sh in ("plain", "templated") if not bc.get("sec_ok:%s:%s" % (t, sh), 0)]
    if (missing or len(stypes) < 4 or bc.get("bodies_printed_conform", 0) < 1000 or bc.get("secrets_masked", 0) < 300
            or bc.get("url_sites", 0) < 9 or bc.get("url_sites_templated_accepted", 0) < bc.get("url_sites", 0)):
        raise vlib.Inconclusive("replay of interval bodies / secrets is vacuous: missing %s, counters %s" % (missing, {k: v for k, v in bc.items() if not k.startswith("defect:")}))
    log("  [%.0fs]" % (time.time() - t0))
    bsum = lambda key: sum(r["counters"].get(key, 0) for r in breps)
    log("  Bodies: %d documents (%d enumerated, %d simulated): %d interval bodies load to the specification's values and print as its marshaller, "
        "%d end at 24:00; %d secret fields (%d URL-typed, all accept a templated value) x shapes: %d masked, %d omitted/from file, 0 canaries printed" %
        (sum(r["cases"] for r in breps), g3.behaviours, g4.behaviours, bsum("bodies_printed_conform"), bsum("shape:end_of_day"),
         bc.get("spec_sites", 0), bc.get("url_sites", 0), bsum("secrets_masked") + bsum("secrets_masked_elsewhere"), bsum("secrets_omitted")))
    accepted = sum(r["counters"].get("accepted", 0) for r in reps)
    rejected = sum(r["counters"].get("defects_rejected", 0) for r in reps)
    kinds = {k for r in reps for k in r["counters"] if k.startswith("defect:") and k != "defect:none"}
    rts = sum(r["counters"].get("roundtrips_ok", 0) for r in reps)
    if accepted < 300 or len(kinds) < DEFECTS or rejected < 1000:
        raise vlib.Inconclusive("replay is vacuous: %d accepted, %d defective rejected, %d/%d defect kinds" % (accepted, rejected, len(kinds), DEFECTS))
    log("  [%.0fs]" % (time.time() - t0))
    log("  Load: %d documents, %d accepted (all clauses hold, %d round trips equivalent), %d defective rejected" %
        (sum(r["cases"] for r in reps), accepted, rts, rejected))

    # 4. fixture files of the repository
    files, _ = _run(binp, "TestFiles", [], os.path.join(wd, "files.json"), "files")
    J.take("fixtures", files)

    # 5. secrets
    sec, _ = _run(binp, "TestSecrets", [], os.path.join(wd, "secrets.json"), "secrets")
    J.take("secrets", sec)
    sc = sec["counters"]
    if sc.get("uncovered_paths", 0) or sc.get("uncovered_kinds", 0):
        raise vlib.Inconclusive("secret-bearing fields without an accepted document (the harness must learn them): %s" %
                                [n for n in sec.get("notes", []) if n.startswith("UNCOVERED")][:10])
    if sc.get("covered_paths", 0) < 150 or sc.get("receiver_kinds", 0) < 15:
        raise vlib.Inconclusive("secrets test is vacuous: %s" % sc)
    log("  [%.0fs]" % (time.time() - t0))
    log("  Secrets: %d secret-bearing fields found by reflection, %d populated with canaries in %d accepted documents, %d unreachable" %
        (sc.get("secret_paths", 0), sc.get("covered_paths", 0), sec["cases"], sc.get("unreachable_paths", 0)))

    # 6. coordinator
    cg1 = os.path.join(wd, "coord_exh.jsonl")
    c1 = vlib.gen_behaviours(PID, "coord_exh", "Gen_Config", "Gen_Config_coord.cfg", cg1, workers=8, timeout=600)
    cg2 = os.path.join(wd, "coord_sim.jsonl")
    c2 = _gen_sim("coord_sim", "Sim_Config_coord.cfg", cg2, 400 if thorough else 60, seed)
    if c1.behaviours < 1000 or c2.behaviours < 100:
        raise vlib.Inconclusive("Gen produced too few coordinator behaviours (%d, %d)" % (c1.behaviours, c2.behaviours))
    coords = []
    for name, path in (("exh", cg1), ("sim", cg2)):
        r, _ = _run(binp, "TestCoordinator", ["-in", path], os.path.join(wd, "coord_%s.json" % name), "coordinator")
        coords.append(r)
        J.take("coordinator(%s)" % name, r)
    cnt = sum(r["nontrivial"] for r in coords)
    if cnt < 100:
        raise vlib.Inconclusive("coordinator replay is vacuous: %d behaviours with a rejected reload over a running configuration" % cnt)
    log("  [%.0fs]" % (time.time() - t0))
    log("  Coordinator: %d behaviours, %d steps, %d with a rejected reload while a configuration is in force" %
        (sum(r["cases"] for r in coords), sum(r["steps"] for r in coords), cnt))

    # 7. robustness: structural corruptions
    rob, txt = _run(binp, "TestRobust", ["-seed", str(seed), "-n", "400" if thorough else "60"], os.path.join(wd, "robust.json"), "robust")
    if rob is None:
        rp = os.path.join(wd, "robust_crash.txt")
        open(rp, "w").write(txt[-20000:])
        v.violation("config.Load exhausts the stack on a structurally corrupted document (process died): %s" % txt[-600:], [rp])
        rob = {"cases": 0, "steps": 0, "nontrivial": 0, "counters": {}, "mismatches": [], "samples": []}
    else:
        J.take("robust", rob)
        if rob["counters"].get("corruption_kinds", 0) < 40 or rob["cases"] < 2000:
            raise vlib.Inconclusive("robustness run is vacuous: %s cases" % rob["cases"])
    log("  [%.0fs]" % (time.time() - t0))
    log("  Robust: %d corrupted documents of %d kinds: %d rejected, %d accepted and inspected" %
        (rob["cases"], rob["counters"].get("corruption_kinds", 0), rob["counters"].get("rejected", 0), rob["counters"].get("accepted", 0)))

    J.finish()

    evaluations = sum(r["cases"] for r in reps) + sec["steps"] + sum(r["steps"] for r in coords) + rob["cases"] + files["cases"]
    sample = []
    if reps[0]["samples"]:
        s = reps[0]["samples"][-1]
        sample.append({"abstract_configuration": s.get("cfg"), "defect": s.get("defect"), "spec_accepts": s.get("valid")})
    if sec["samples"]:
        sample.append({"secrets_document": sec["samples"][0].get("yaml", "")[:600], "canaries": sec["samples"][0].get("secrets")})
    coverage = {
        "states": mc.distinct + mcc.distinct + mcb.distinct, "transitions": mc.generated + mcc.generated + mcb.generated,
        "traces_validated_against_impl": sum(r["cases"] for r in reps) + sum(r["cases"] for r in coords),
        "configurations_loaded": sum(r["cases"] for r in reps),
        "accepted_and_inspected": accepted, "round_trips_equivalent": rts, "defective_rejected": rejected,
        "defect_kinds": sorted(k[len("defect:"):] for k in kinds),
        "repeated_wildcard_group_by_accepted": sum(r["counters"].get("repeated_wildcard_accepted", 0) for r in reps),
        "interval_body_documents": sum(r["cases"] for r in breps),
        "interval_bodies_conform_values_and_print": bsum("bodies_printed_conform"),
        "interval_shapes_loaded": {k[len("shape:"):]: bsum(k) for k in sorted(bc) if k.startswith("shape:")},
        "spec_secret_sites": bc.get("spec_sites", 0), "spec_secret_sites_unreachable": bc.get("sites_unreachable", 0),
        "spec_secret_url_sites_templated": bc.get("url_sites_templated_accepted", 0),
        "secret_type_x_shape_accepted": {k[len("sec_ok:"):]: bsum(k) for k in sorted(bc) if k.startswith("sec_ok:")},
        "secret_type_x_shape_not_acceptable": {k[len("sec_na:"):]: bc[k] for k in sorted(bc) if k.startswith("sec_na:")},
        "secret_values_checked": {sh: bsum("secrets_checked:" + sh) for sh in ("plain", "templated", "file", "empty")},
        "secrets_masked": bsum("secrets_masked"), "secrets_masked_in_another_field": bsum("secrets_masked_elsewhere"),
        "secrets_omitted": bsum("secrets_omitted"),
        "secret_fields_found": sc.get("secret_paths", 0), "secret_fields_populated": sc.get("covered_paths", 0),
        "secret_fields_unreachable": [n for n in sec.get("notes", []) if n.startswith("secret path that no accepted")],
        "secret_documents": sec["cases"], "receiver_kinds": sc.get("receiver_kinds", 0),
        "coordinator_behaviours": sum(r["cases"] for r in coords), "coordinator_steps": sum(r["steps"] for r in coords),
        "corrupted_documents": rob["cases"], "corruption_kinds": rob["counters"].get("corruption_kinds", 0),
        "corrupted_accepted": rob["counters"].get("accepted", 0),
        "fixture_files": files["cases"],
        "drift": J.drift,
        "known_finding_documents": J.known,
        "evaluations": evaluations,
        "distinct_nontrivial": accepted + cnt + len(kinds),
        "rule": "evaluations = documents given to the real config.Load (TLC-generated, corrupted, fixtures) + canary checks + coordinator steps; "
                "non-trivial = accepted TLC configurations (every clause inspected on the loaded struct and on the dispatch tree, round trip compared) "
                "+ coordinator behaviours with a rejected reload over a running configuration + defect kinds seen rejected",
        "mc_action_coverage": dict({a: g for a, (d, g) in mc.coverage.items()}, **{a: g for a, (d, g) in mcb.coverage.items()}),
        "samples": sample,
        "exhaustive": True,
        "bounds": "MC/Gen: all configurations reachable from the minimal valid one by <= %d edits (3 receiver names, 2 interval names, 2 group_by labels, <= %d route nodes, depth <= 2) "
                  "each also with one of %d catalogue defects; Sim: random walks of <= 12 edits, <= 6 nodes, depth 3; "
                  "bodies (SpecBody): one interval in time_intervals and one in mute_time_intervals sharing a body of <= %d tokens out of 15 time ranges over "
                  "{00:00,00:01,09:00,17:30,23:59,24:00}, 8 weekday shapes (single/range, sunday and saturday ends), 11 days_of_month shapes (1, 15, 31, -1, -31, ranges "
                  "with negative ends), 12 month shapes (name/number, single/range, december, the unchecked 13), 3 year shapes, 5 locations (UTC, Local, 3 named zones), "
                  "<= 3 elements, then one of 19 ill-formed tokens (6 more defect kinds); Sim: bodies of <= 8 tokens; secrets: each of the %d sites of Sites_Config.tla "
                  "x {plain, templated, file, empty}, 1 per document (Sim: <= 3); coordinator: pool of 7 files (3 valid, 4 defective), all sequences of 4 "
                  "operations + random of 14; secrets: every secret-typed field reachable from config.Config through yaml tags; robustness: %d corruption kinds of %d seed documents" %
                  (4 if thorough else 3, 4 if thorough else 3, 16, 3 if thorough else 2, bc.get("spec_sites", 0), rob["counters"].get("corruption_kinds", 0), 5),
        "not_decided": "'never panics or hangs' for ARBITRARY byte strings: a TLA+ model cannot enumerate YAML byte strings meaningfully; only structural corruptions of valid documents "
                       "(dropped/duplicated/re-indented lines, wrong scalar types, unknown fields, null list elements, truncation at every line, tabs, CRLF/BOM/NUL/invalid UTF-8, "
                       "anchors/aliases/merge keys incl. a modest alias bomb, deep and wide nesting, megabyte scalars) are generated. app/reloader.go (fallible work before touching live state) "
                       "is exercised by the instance harness of other properties, not here; the coordinator is checked with one subscriber.",
    }
    assumptions = [
        "a repeated wildcard `group_by: ['...', '...']` is read as the wildcard, not as a duplicate label (the loader accepts it; counted in coverage)",
        "the round-trip clause is applied to configurations whose textual form contains no <secret> (the statement's scope)",
        "which fields are secret is fixed by spec/mc/Sites_Config.tla (generated once from config.Config by reflection: every field whose type name contains 'Secret' - "
        "commoncfg.Secret by value and by pointer, SecretURL, SecretTemplateURL); a secret-typed field of the tree that the list lacks makes the run Inconclusive, "
        "a listed field that is no longer secret-typed is still given canaries",
        "a secret value's 'distinguishing part' is a canary token placed in host, path and query of URL-typed secrets (plain and next to a `{{ ... }}` action) and in the text of "
        "string secrets; a canary anywhere in Config.String() or in the body of GET /api/v2/status (compared case-insensitively) is a leak",
        "whether the loader accepts a given shape at a given secret field is not claimed by the specification (the harness searches the base documents of the field's holder for an "
        "acceptable one; combinations never accepted are listed in the replay notes); what the textual form shows in place of the secret (<secret> / nothing) is compared as drift only",
        "time interval tokens are rendered through yaml.Marshal (quoted where YAML needs it); unquoted scalars (`years: [2024]`, sexagesimal `9:00`) are not generated; "
        "equivalence of reloaded intervals additionally probes the edges of days, months and years as wall-clock readings in UTC, the process's zone and every zone named",
        "the specification's zone universe (UTC, Local, Europe/Paris, Asia/Kolkata, America/St_Johns) abstracts the tz database (embedded time/tzdata in the harness)",
        "equivalence of routing trees = equality of the dispatch.NewRoute trees (matchers, receiver, effective group_by / wildcard, timers, continue, mute/active names, labels); "
        "of inhibit rules = equality of inhibit.NewInhibitRule matchers/equal; of time intervals = structural equality or no distinguishing instant among ~1400 probes",
        "a hang is a call that does not return within 30 s of real time",
        "rejecting a configuration the specification accepts does not contradict the statement: it is reported as DRIFT, not as a violation",
        "the coordinator's 'running configuration' is what its (single) subscriber applied last; what it 'reports' is alertmanager_config_hash / alertmanager_config_last_reload_successful",
    ]
    # the whole program: reloads of a running app.App (good / refused by config.Load / refused at apply time),
    # status text, API receivers and deliveries judged against spec/AppSys.tla
    from checks import appcommon
    coverage["whole_program"] = appcommon.run_app_system(PID, tier, v)
    assumptions = list(assumptions) + appcommon.ASSUMPTIONS
    return "model_checking", coverage, assumptions


def replay(path, v):
    if "appsys" in os.path.basename(path):
        from checks import appcommon
        return appcommon.replay(PID, path, v)
    """Replays one stored artefact: {"yaml": ...} (a document) or a coordinator behaviour (list)."""
    binp = vlib.go_build_test(PID, "c17")
    wd = os.path.join(vlib.OUT, PID)
    data = json.load(open(path))
    if isinstance(data, list):
        inp = os.path.join(wd, "replay_in.jsonl")
        open(inp, "w").write(json.dumps(data) + "\n")
        r, _ = _run(binp, "TestCoordinator", ["-in", inp], os.path.join(wd, "replay_out.json"), "coordinator")
    else:
        doc = os.path.join(wd, "replay_doc.yml")
        open(doc, "w").write(data.get("yaml", ""))
        rc, txt = vlib.go_run_test(binp, "TestDocument$", ["-in", doc, "-out", os.path.join(wd, "replay_out.json")], env_extra=_env())
        r = vlib.load_result(os.path.join(wd, "replay_out.json"))
    open_keys = {f["key"] for f in vlib.known_findings(PID)}
    for m in r["mismatches"]:
        cls = m.get("class", "")
        if cls.startswith("drift_"):
            v.notes.append("DRIFT property=%s %s: %s" % (PID, cls, m["what"][:300]))
        elif CLASS_KEY.get(cls) in open_keys:
            v.known_finding(CLASS_KEY[cls], "%s (%s) - reproduced by the replayed document" % (CLASS_KEY[cls], TEXT[CLASS_KEY[cls]]))
        else:
            v.violation("replay: %s [class %s]" % (m["what"][:600], cls), [path])
