"""C02 - silenced alerts are never notified; the mute verdict equals the stored silences.

Spec: Silences.tla (Silencer.Mutes with its incremental cache vs MutedRef).  MC: MC_Silences.cfg.
Bind: TLC-simulated behaviours replayed on real Silences+Silencer; after every Mutes the real verdict
and marker ids are compared with MutedRef evaluated by TLC."""
import json, os
from lib import vlib
from checks import silcommon

PID = "C02"


def run(tier, v):
    wd = os.path.join(vlib.OUT, PID)
    mcs, gens, results = silcommon.run_pipeline(PID, tier, v, ["MC_Silences.cfg"])
    drift = silcommon.judge(PID, v, results, wd)
    cov = silcommon.base_coverage(mcs, gens, results)
    mutes = cov["counters"].get("mutes", 0)
    muted = cov["counters"].get("mutes_muted", 0)
    if mutes < 100 or muted < 10:
        raise vlib.Inconclusive("too few Mutes evaluations reached (%d, %d muted)" % (mutes, muted))
    cov.update({
        "distinct_nontrivial": muted,
        "rule": "one evaluation = one Silencer.Mutes call inside a replayed behaviour (distinct behaviours from TLC -simulate); "
                "non-trivial = the reference verdict is 'muted by at least one silence'",
        "drift": drift,
        "bounds": "MC: 1 local + 1 remote silence id, 1 label set, time 0..4, all interleavings of set/expire/merge/gc/restart/mutes/alert-gc; "
                  "Gen: behaviours of 40 ops over 6 local + 2 remote ids, 5 label sets, 6 matcher sets, time 0..12",
    })
    # concurrent queries and updates: the cached Silencer vs a fresh one at quiescence (real goroutines)
    binp = vlib.go_build_test(PID, "sil")
    out = os.path.join(wd, "concurrent.json")
    rc, txt = vlib.go_run_test(binp, "TestConcurrent$", ["-out", out, "-n", "3000" if tier == "thorough" else "400"], timeout=1200)
    if rc != 0:
        raise vlib.Inconclusive("concurrent stress test failed:\n" + txt[-2000:])
    conc = vlib.load_result(out)
    for m in conc["mismatches"][:5]:
        rp = os.path.join(wd, "concurrent_round_%d.json" % m["case"])
        json.dump(m, open(rp, "w"))
        v.violation("%s: direct evaluation %s, cached verdict %s" % (m["what"], m.get("want"), m.get("got")), [rp])
    cov["concurrent_rounds"] = conc["cases"]
    # end-to-end clause: no notification of the real instance contains a silenced alert (observer AMObs)
    from checks import e2ecommon
    e = e2ecommon._run_scenarios(PID, tier, v, 200, 3000)
    e2ecommon.judge(PID, v, e, {"C02"})
    cov["e2e_scenarios"] = e["runs"]
    cov["traces_validated_against_impl"] += e["runs"]
    return "model_checking", cov, [
        "all versions of one silence id carry the same matchers (enforced at the origin by canUpdate)",
        "no two writes to one silence id at the same instant (nanosecond clock); virtual time stands for the wall clock",
        "regex languages of Labels.tla are stated for the finite value universe (cross-checked by C16)",
        "concurrent Mutes/updates: differential stress test only (cached Silencer vs a fresh Silencer at quiescence), not a linearizability proof",
    ]


def replay(path, v):
    silcommon.replay_one(PID, path, v)
