"""Real cluster.Peers on loopback (hashicorp memberlist, UDP + TCP on 127.0.0.1) driven by
schedules that TLC generates from spec/GossipPeers.tla: the delivery clause of C19 and the
readiness clause of C08 (a clustered instance becomes ready when Settle gives up, so its
flushes pass ClusterGossipSettleStage and it notifies).

    run_real_peers(pid, tier, v) -> dict of coverage counters
        pid "C19": reports delivery violations (an update never merged by a peer that stayed
                   connected, with control evidence; a joiner lacking the seed's state)
        pid "C08": reports readiness violations (Settle's context expired long ago, the peer
                   is responsive, yet never ready: WaitReady / the settle stage block)
    model_check(pid, tier) -> (states, transitions, per-configuration dict)
        exhaustive TLC runs of MC_GossipPeers*.cfg; two configurations MUST fail
        (SendList = "cached" = seeded C19-1, OnTimeout = "stuck" = seeded C08-1)
    replay(pid, path, v)   re-runs the schedule of a stored artefact

Harness: harness/peer (real time, not synctest: memberlist needs the real network).  The
verdict policy (control evidence, no false alarms) is described at the top of
harness/peer/peer_test.go."""
import json, os, hashlib, concurrent.futures
from lib import vlib
from lib.vlib import log

GEN = [("p3", "Gen_GossipPeers.cfg"), ("p2", "Gen_GossipPeers_2.cfg"), ("p4", "Gen_GossipPeers_4.cfg")]
GEN_TLS = [("t3", "Gen_GossipPeers_tls.cfg"), ("t2", "Gen_GossipPeers_tls2.cfg")]     # TLS gossip transport + connection resets
CLASSES = {"C19": ("delivery", "join"), "C08": ("ready",)}

# (configuration, timeout s, expected violated invariant or None, tier)
MC = [("MC_GossipPeers.cfg", 200, None, "quick"), ("MC_GossipPeers_small.cfg", 300, None, "quick"),
      ("MC_GossipPeers_ready.cfg", 200, None, "quick"),
      ("MC_GossipPeers_cached.cfg", 200, "Delivered", "quick"), ("MC_GossipPeers_stuck.cfg", 200, "Readiness", "quick"),
      ("MC_GossipPeers_wide.cfg", 200, "DeliveredStrict", "quick"),
      ("MC_GossipPeers_tls.cfg", 300, None, "quick"), ("MC_GossipPeers_noredial.cfg", 200, "Delivered", "quick"),
      ("MC_GossipPeers_tls3.cfg", 900, None, "thorough"),
      ("MC_GossipPeers_mixed.cfg", 600, None, "thorough"), ("MC_GossipPeers_4s.cfg", 900, None, "thorough"), ("MC_GossipPeers_ready_full.cfg", 900, None, "thorough"),
      ("MC_GossipPeers_3.cfg", 1800, None, "thorough"), ("MC_GossipPeers_4.cfg", 1800, None, "thorough")]


def model_check(pid, tier, only=None):
    """Exhaustive TLC runs of GossipPeers.tla.  Returns (distinct, generated, per-cfg dict)."""
    todo = [m for m in MC if (m[3] == "quick" or tier == "thorough") and (only is None or m[0] in only)]
    def one(m):
        cfg, to, expect, _ = m
        return m, vlib.tlc(pid, "mcp_" + cfg[:-4], "MC_GossipPeers", cfg, workers=2 if m[3] == "quick" else 4, timeout=to)
    with concurrent.futures.ThreadPoolExecutor(max_workers=3) as ex:
        rs = list(ex.map(one, todo))
    states = trans = 0
    per = {}
    for (cfg, to, expect, _), r in rs:
        if expect:
            if r.violated != expect:
                raise vlib.Inconclusive("%s: the defective variant of GossipPeers.tla must violate %s but TLC reports %s / %s (see %s)" % (
                    cfg, expect, r.violated, r.error, r.stdout_path))
            per[cfg] = {"violates": expect, "as_expected": True, "distinct": r.distinct}
            log("  %s: %s violated, as it must be (the invariant discriminates), %.1fs" % (cfg, expect, r.wall))
            continue
        vlib.tlc_must_pass(r, cfg)
        log("  %s: %d states generated, %d distinct, depth %d, %.1fs" % (cfg, r.generated, r.distinct, r.depth, r.wall))
        states += r.distinct
        trans += r.generated
        per[cfg] = {"distinct": r.distinct, "generated": r.generated, "depth": r.depth}
    return states, trans, per


def _gen(pid, name, cfg, out_path, num, seed, timeout):
    """TLC -simulate (one worker: with a fixed seed every worker draws the same sequence)."""
    raw = out_path + ".raw"
    r = vlib.tlc(pid, "genp_" + name, "Gen_GossipPeers", cfg, workers=1, timeout=timeout, simulate="num=%d" % num, depth=40,
                 marker="@@H ", payload_to=raw, extra=["-seed", str(seed)])
    if r.violated:
        raise vlib.Inconclusive("Gen %s: %s violated on the specification during simulation (see %s)" % (cfg, r.violated, r.stdout_path))
    if (r.error and not r.timed_out) or (r.rc != 0 and not r.timed_out):
        raise vlib.Inconclusive("Gen %s: TLC failed: %s (see %s)" % (cfg, r.error, r.stdout_path))
    seen, out = set(), []
    with open(raw) as f:
        for line in f:
            cut = line.rfind('{"e":')      # Emit is evaluated on every candidate successor of the last step
            h = hashlib.sha1(line[:cut].encode()).digest()
            if h in seen:
                continue
            seen.add(h)
            out.append(line)
    os.remove(raw)
    return out


def features(h):
    """Shape of one schedule (list of history elements)."""
    f = set()
    lastbig = {}
    stops = 0
    for i, x in enumerate(h[1:], 1):
        e = x["e"]
        op = e["op"]
        if op == "bcast" and e["big"]:
            n, L = e["n"], sorted(e["list"])
            if n in lastbig and len(lastbig[n]) == len(L) and lastbig[n] != L and set(L) - set(lastbig[n]) and \
               (set(L) - set(lastbig[n])) & set(e["conn"]):
                f.add("replaced_before_big")      # same member count, another peer: what a cached list misses
            lastbig[n] = L
            if stops:
                f.add("big_after_stop")
        if op == "resetin":
            f.add("reset")
            p = e["n"]
            for y in h[i + 1:]:
                e2 = y["e"]
                # a later small update of a sender whose pooled connection to p was reset, p connected, both run to the end
                if e2["op"] == "bcast" and not e2["big"] and e2["n"] in e["broke"] and p in e2["conn"] and \
                   h[-1]["life"][p] == "up" and h[-1]["life"][e2["n"]] == "up":
                    f.add("reset_before_small")
        if op in ("left", "crashed"):
            stops += 1
            f.add(op)
        if op in ("join", "restart"):
            n = e["n"]
            if e["budget"] < 5 and h[-1]["life"][n] == "up":
                f.add("settle_timeout")
            if e["budget"] >= 5 and h[-1]["life"][n] == "up":
                f.add("settle_normal")
            if stops and op == "join":
                f.add("replaced")
        if op in ("restart", "reconnect"):
            f.add(op)
    return f


def select(lines, quota, total, seed):
    """Coverage-directed choice among the TLC schedules: fill the quotas, then take the rest in order."""
    import random
    rnd = random.Random(seed)
    feats = [(ln, features(json.loads(ln))) for ln in lines]
    rnd.shuffle(feats)
    chosen, used = [], set()
    for feat, want in quota:
        got = sum(1 for i in used if feat in feats[i][1])
        for i, (ln, f) in enumerate(feats):
            if got >= want:
                break
            if i not in used and feat in f:
                used.add(i)
                got += 1
    for i in range(len(feats)):
        if len(used) >= total:
            break
        used.add(i)
    for i in sorted(used):
        chosen.append(feats[i])
    return chosen


def _run(pid, binp, inp, out, par, budget):
    rc, txt = vlib.go_run_test(binp, "TestReplay$", ["-in", inp, "-out", out, "-par", str(par), "-budget", str(budget)],
                               timeout=budget + 150)
    if rc != 0 or not os.path.exists(out):
        # a stop of the test binary is never a verdict here (global timeout, harness trouble)
        raise vlib.Inconclusive("real-peer harness did not finish (rc %s):\n%s" % (rc, txt[-2500:]))
    return vlib.load_result(out)


def _report(pid, v, r, wd, tag):
    mine = CLASSES.get(pid, ())
    n = 0
    seen = set()
    for m in r["mismatches"]:
        cls = m.get("class", "")
        if cls == "harness":
            raise vlib.Inconclusive("real-peer harness: %s" % m["what"])
        if cls not in mine:
            continue        # the other property's clause: reported when that property runs
        if m["case"] in seen or len(seen) >= 8:
            n += 1          # counted; one report per schedule, at most 8 reports per run
            continue
        seen.add(m["case"])
        rp = os.path.join(wd, "%s_case_%d_%d.json" % (tag, m["case"], m["step"]))
        if m.get("replay") is not None:
            json.dump(m["replay"], open(rp, "w"))
        v.violation("real cluster.Peers on loopback, schedule %d: %s (held: %s)" % (m["case"], m["what"], json.dumps(m.get("got"))[:500]), [rp])
        n += 1
    return n


def run_real_peers(pid, tier, v):
    thorough = tier == "thorough"
    wd = os.path.join(vlib.OUT, pid)
    os.makedirs(wd, exist_ok=True)
    seed = vlib.seed()
    binp = vlib.go_build_test(pid, "peer")
    num = 1500 if thorough else 260
    def g(p):
        name, cfg = p
        return _gen(pid, name, cfg, os.path.join(wd, "genp_%s.jsonl" % name), num, seed, 600 if thorough else 120)
    with_tls = pid == "C19"
    with concurrent.futures.ThreadPoolExecutor(max_workers=5) as ex:
        gens_all = list(ex.map(g, GEN + (GEN_TLS if with_tls else [])))
    gens, gens_tls = gens_all[:len(GEN)], gens_all[len(GEN):]
    if min(len(x) for x in gens_all) < (1000 if thorough else 150):
        raise vlib.Inconclusive("Gen_GossipPeers produced too few schedules: %s" % [len(x) for x in gens_all])
    lines = [ln for x in zip(*gens) for ln in x]        # interleave 3 / 2 / 4 initial peers
    if pid == "C08":
        total = 400 if thorough else 18
        quota = [("settle_timeout", total * 2 // 3), ("settle_normal", total // 4), ("restart", total // 6)]
    else:
        total = 800 if thorough else 30
        quota = [("replaced_before_big", total // 3), ("settle_timeout", total // 6), ("restart", total // 8),
                 ("reconnect", total // 10), ("crashed", total // 4)]
    chosen = select(lines, quota, total, seed)
    if with_tls:
        # the transport dimension: schedules generated with Transport = "tls" (connection resets), and TLS twins of
        # some of the schedules above (the same operations over the other transport); one TLS schedule after two others
        ttotal = 300 if thorough else 12
        tls = select([ln for x in zip(*gens_tls) for ln in x], [("reset_before_small", ttotal * 3 // 4), ("restart", ttotal // 6)], ttotal, seed)
        for ln, fs in chosen[:(100 if thorough else 4)]:
            h = json.loads(ln)
            h[0]["e"]["transport"] = "tls"
            tls.append((json.dumps(h), set(fs) | {"tls_twin"}))
        tls = [(ln, set(fs) | {"tls"}) for ln, fs in tls]
        total += len(tls)
        mixed, k = [], 0
        for i, x in enumerate(chosen):
            mixed.append(x)
            if i % 2 == 1 and k < len(tls):
                mixed.append(tls[k])
                k += 1
        chosen = mixed + tls[k:]
    inp = os.path.join(wd, "peer_schedules.jsonl")
    with open(inp, "w") as f:
        for ln, _ in chosen:
            f.write(ln if ln.endswith("\n") else ln + "\n")
    shape = {}
    for _, fs in chosen:
        for x in fs:
            shape[x] = shape.get(x, 0) + 1
    out = os.path.join(wd, "peer_replay.json")
    r = _run(pid, binp, inp, out, 8, 480 if thorough else (32 if with_tls else 26))
    c = r["counters"]
    nv = _report(pid, v, r, wd, "peer")
    cases = r["cases"]
    inc = c.get("inconclusive_cases", 0)
    log("  real peers (%s): %d schedules replayed (%d skipped), %d small + %d oversized updates, %d membership changes, %d replaced-peer, "
        "%d settle-timeout cases; latency median %.1f ms, max small %d ms / oversized %d ms; %d suspect pairs, %d inconclusive schedules, %d violations of %s" % (
            tier, cases, c.get("skipped", 0), c.get("bcast_small", 0), c.get("bcast_big", 0), c.get("membership_changes", 0),
            c.get("replaced_peer", 0), c.get("settle_timeout_cases", 0), c.get("median_latency_us", 0) / 1000.0,
            c.get("max_latency_ms_small", 0), c.get("max_latency_ms_big", 0), c.get("suspects", 0), inc, nv, pid))
    if with_tls:
        log("  real peers, TLS gossip transport: %d schedules, %d connection-reset faults (%d connections), %d small updates to a member after a reset "
            "(%d deliveries); latency median small %.1f ms / oversized %.1f ms, max %d / %d ms" % (
                c.get("tls_schedules", 0), c.get("op_resetin", 0), c.get("connections_reset", 0), c.get("small_after_reset", 0),
                c.get("delivered_small_after_reset", 0), c.get("median_latency_us_tls_small", 0) / 1000.0,
                c.get("median_latency_us_tls_big", 0) / 1000.0, c.get("max_latency_ms_tls_small", 0), c.get("max_latency_ms_tls_big", 0)))
    if not nv:
        # on a loaded machine fewer schedules fit into the time budget: what was replayed still counts
        # (the coverage says how many); too few to mean anything is inconclusive
        if cases < min(total * 0.6, 60):
            raise vlib.Inconclusive("real peers: only %d of %d schedules were replayed within the time budget" % (cases, total))
        if inc > 0.2 * cases:
            raise vlib.Inconclusive("real peers: %d of %d schedules inconclusive: %s" % (inc, cases, "; ".join(r.get("notes") or [])[:1500]))
        need = ["ready_checked", "settle_timeout_cases", "flush_after_settle"] if pid == "C08" else \
               ["bcast_small", "bcast_big", "delivered_small", "delivered_big", "replaced_peer", "big_after_membership_change",
                "op_left", "op_crashed", "op_join", "join_checked",
                "tls_schedules", "op_resetin", "small_after_reset", "delivered_small_after_reset", "delivered_tls_big"]
        missing = [k for k in need if not c.get(k)]
        if missing:
            raise vlib.Inconclusive("real peers: the replayed schedules never reached: %s" % missing)
    return {
        "schedules_replayed": cases,
        "schedules_skipped_for_time": c.get("skipped", 0),
        "schedule_shapes_selected": shape,
        "steps": r["steps"],
        "nontrivial": r["nontrivial"],
        "updates_small": c.get("bcast_small", 0),
        "updates_oversized": c.get("bcast_big", 0),
        "deliveries_small": c.get("delivered_small", 0),
        "deliveries_oversized": c.get("delivered_big", 0),
        "deliveries_by_full_state_only": c.get("delivered_by_full_state", 0),
        "membership_changes": c.get("membership_changes", 0),
        "leaves": c.get("op_left", 0), "crashes": c.get("op_crashed", 0), "joins": c.get("op_join", 0),
        "restarts": c.get("op_restart", 0), "reconnects": c.get("op_reconnect", 0),
        "replaced_peer_cases": c.get("replaced_peer", 0),
        "oversized_after_membership_change": c.get("big_after_membership_change", 0),
        "joins_checked_for_full_state": c.get("join_checked", 0),
        "settle_timeout_cases": c.get("settle_timeout_cases", 0),
        "readiness_checks": c.get("ready_checked", 0),
        "flushes_through_settle_stage": c.get("op_flush", 0),
        "suspect_pairs_examined_with_control": c.get("suspects", 0),
        "excused_small_unlucky_draw": c.get("excused_small_unlucky_draw", 0),
        "excused_small_more_than_3_targets": c.get("excused_small_wide", 0),
        "inconclusive_cases": inc,
        "inconclusive_notes": (r.get("notes") or [])[:5],
        "median_delivery_latency_ms": c.get("median_latency_us", 0) / 1000.0,
        "p99_delivery_latency_ms": c.get("p99_latency_ms", 0),
        "max_delivery_latency_ms": {"small": c.get("max_latency_ms_small", 0), "oversized": c.get("max_latency_ms_big", 0)},
        "tls_transport": {
            "schedules": c.get("tls_schedules", 0), "connection_reset_faults": c.get("op_resetin", 0),
            "connections_reset": c.get("connections_reset", 0), "small_updates_after_reset": c.get("small_after_reset", 0),
            "deliveries_small_after_reset": c.get("delivered_small_after_reset", 0),
            "deliveries_small": c.get("delivered_tls_small", 0), "deliveries_oversized": c.get("delivered_tls_big", 0),
            "median_delivery_latency_ms": {"small": c.get("median_latency_us_tls_small", 0) / 1000.0, "oversized": c.get("median_latency_us_tls_big", 0) / 1000.0},
            "max_delivery_latency_ms": {"small": c.get("max_latency_ms_tls_small", 0), "oversized": c.get("max_latency_ms_tls_big", 0)},
        },
        "violations_reported": nv,
        "samples": r.get("samples", [])[:1],
    }


ASSUMPTIONS = [
    "real-peer stage: memberlist itself (failure detection, random choice of gossip targets, UDP/TCP) is used as it is, not modelled "
    "beyond GossipPeers.tla; a missing update is a violation only with control evidence (both peers listed each other from before the "
    "broadcast until the judgement, no counted send failure or drop, the origin's oversize worker idle, a later control update of the "
    "other size class merged; for a small update additionally <= 3 gossip targets and 4 further small updates missing too)",
    "real-peer stage: push/pull interval 1 h so that the periodic full-state exchange cannot hide a lost update inside a schedule; "
    "packet loss and the bounded oversize queue are exercised by the in-memory stages (Gossip.tla), not here",
    "real-peer stage, TLS gossip transport: throw-away CA and one certificate for 127.0.0.1 generated at run time, mutual TLS, every peer "
    "advertised behind a TCP forwarder of the harness; the fault is a reset (RST) of all established connections towards one running member; "
    "a small update after a reset is judged like any other (the one packet whose write finds the reset may be lost: 4 later small updates "
    "must be lost too for a verdict)",
]


def replay(pid, path, v):
    data = json.load(open(path))
    wd = os.path.join(vlib.OUT, pid)
    binp = vlib.go_build_test(pid, "peer")
    inp = os.path.join(wd, "peer_replay_in.jsonl")
    sched = data["peer_schedule"]
    open(inp, "w").write(json.dumps(sched) + "\n")
    r = _run(pid, binp, inp, os.path.join(wd, "peer_replay_out.json"), 1, 120)
    n = 0
    for p in CLASSES:
        if p == pid:
            n += _report(pid, v, r, wd, "peer_replay")
    return n
