//go:build verif

package e2e

import (
	"sync"
	"testing"
	"testing/synctest"
	"time"

	"github.com/prometheus/alertmanager/alert"
	"github.com/prometheus/alertmanager/dispatch"

	"verif/harness/hx"
	"verif/harness/inst"
)

// TestMaintRace drives the interleaving of Dispatch.tla in which the maintenance sweep has
// seen a destroyed group and an ingestion worker re-creates the group before the sweep
// deletes the map entry (MaintStop .. Store .. MaintDelete), with and without the
// re-creation, through the blocking verif hooks maint.destroyed / maint.delete.  The
// recorded events are judged by the observer (C06: alerts of one group key are never
// split over two live groups; the re-created group holds every firing alert).
func TestMaintRace(t *testing.T) {
	res := hx.NewResult()
	defer res.Write()
	tw, err := hx.NewTraceWriter(*hx.Trace)
	if err != nil {
		t.Fatal(err)
	}
	defer tw.Close()
	run := 0
	for _, tm := range timerSets {
		for variant := 0; variant < 4; variant++ {
			run++
			res.Cases++
			cfg := scenCfg{T: tm, Integs: mkIntegs([]string{"webhook"}, []bool{true})}
			synctest.Test(t, func(t *testing.T) {
				lg := &inst.Log{}
				var mu sync.Mutex
				var gate chan struct{} // maintenance parked here
				gateOn := false
				parkedAt := ""
				hook := func(name string, args ...any) {
					switch name {
					case "flush.begin":
						as := args[2].(alert.AlertSlice)
						obs := make([]inst.AlertObs, 0, len(as))
						for _, a := range as {
							st := "firing"
							if !a.EndsAt.IsZero() {
								st = "resolved"
							}
							obs = append(obs, inst.AlertObs{L: canonLabels(lsMap(a)), Status: st, Start: ms(a.StartsAt), End: ms(a.EndsAt), Upd: ms(a.UpdatedAt)})
						}
						lg.Add(inst.Event{Ev: "flush.begin", Gk: args[0].(string), Ag: agOf(args[3]), Route: args[1].(string), Alerts: obs})
					case "flush.ok", "flush.done":
						lg.Add(inst.Event{Ev: name, Gk: args[0].(string), Ag: agOf(args[1])})
					case "worker.recv":
						a := args[0].(*alert.Alert)
						lg.Add(inst.Event{Ev: "ingest", Alerts: []inst.AlertObs{{L: canonLabels(lsMap(a)), Start: ms(a.StartsAt), End: ms(a.EndsAt), Upd: ms(a.UpdatedAt)}}})
					case "maint.destroyed", "maint.delete":
						mu.Lock()
						on := gateOn
						var ch chan struct{}
						if on {
							ch = make(chan struct{})
							gate = ch
							parkedAt = name
						}
						mu.Unlock()
						if on {
							<-ch
						}
					}
				}
				dispatch.VerifPoint.Store(&hook)
				defer dispatch.VerifPoint.Store(nil)
				in, err := inst.New(inst.Options{Name: "A", Retention: 120 * time.Hour, AlertGCInterval: 1000 * time.Hour,
					MaintenanceInterval: 30 * time.Second, Log: lg})
				if err != nil {
					t.Fatal(err)
				}
				lg.Add(inst.Event{Ev: "cfg", Data: cfg.event(nil, 0, 0)})
				if err := in.Reload(cfg.yaml(cfg.Integs)); err != nil {
					t.Fatal(err)
				}
				synctest.Wait()
				post := func(a string, resolve bool) {
					time.Sleep(time.Millisecond)
					pa := inst.PostAlert{Labels: alertLabels[a]}
					now := time.Now()
					if resolve {
						pa.EndsAt = &now
					} else {
						x := now.Add(100 * time.Hour)
						pa.EndsAt = &x
					}
					pa.StartsAt = &now
					code := in.PostAlerts([]inst.PostAlert{pa})
					lg.Add(inst.Event{Ev: "post", Data: map[string]any{"a": a, "code": code}})
					synctest.Wait()
				}
				release := func() {
					mu.Lock()
					ch := gate
					gate = nil
					mu.Unlock()
					if ch != nil {
						close(ch)
					}
					synctest.Wait()
				}
				// 1. the group of g=1 is created, notifies, its only alert resolves, is notified and the group destroyed
				post("A1", false)
				time.Sleep(cfg.T.gw + 7*time.Millisecond)
				synctest.Wait()
				post("A1", true)
				mu.Lock()
				gateOn = true
				mu.Unlock()
				time.Sleep(cfg.T.gi + 13*time.Millisecond) // the flush that destroys the group
				synctest.Wait()
				// 2. let time pass until the maintenance sweep has seen the destroyed group and is parked
				for i := 0; i < 40; i++ {
					mu.Lock()
					p := parkedAt
					mu.Unlock()
					if p == "maint.destroyed" {
						break
					}
					time.Sleep(time.Second)
					synctest.Wait()
				}
				mu.Lock()
				p := parkedAt
				mu.Unlock()
				if p != "maint.destroyed" {
					res.Count("maintenance_never_parked", 1)
				} else {
					res.Nontrivial++
				}
				switch variant {
				case 0: // a worker re-creates the group while maintenance is between its check and its delete
					post("A1", false)
					release() // -> ag.stop(), parks at maint.delete
					release() // -> CompareAndDelete
				case 1: // re-creation after stop, before delete
					release()
					post("A1", false)
					release()
				case 2: // no re-creation: the entry is deleted, the next alert creates a fresh group
					release()
					release()
					post("A1", false)
				case 3: // another alert of the same group key arrives in the window
					post("A2", false)
					release()
					release()
				}
				mu.Lock()
				gateOn = false
				mu.Unlock()
				release()
				// 3. a further alert with the same group_by values: it must join the live group
				time.Sleep(3 * time.Second)
				post("A2", false)
				time.Sleep(2*cfg.T.gi + cfg.T.gw + time.Minute)
				synctest.Wait()
				post("A4", false)
				time.Sleep(2*cfg.T.gi + time.Minute)
				synctest.Wait()
				lg.Add(inst.Event{Ev: "end"})
				in.Stop()
				synctest.Wait()
				for _, e := range lg.Ev {
					e.Alerts = nameAlerts(e.Alerts)
					e.Firing = namesOfHashes(e.Firing)
					e.Resolved = namesOfHashes(e.Resolved)
					tw.Emit(norm(e, run))
					res.Steps++
				}
			})
		}
	}
}
