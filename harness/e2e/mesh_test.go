//go:build verif

package e2e

// C08: N real Alertmanager instances in one virtual-time bubble.  Every instance receives
// the alerts (as Prometheus sends them to all Alertmanagers); their notification logs are
// connected through a harness-controlled network (delay, loss, duplication, partitions);
// instances crash and restart with or without their snapshot; peer positions follow each
// instance's view of who is up.  Every instance's events are recorded as a separate run
// and validated by the observer specification: what an instance knows as "the last
// notification" is its own log entries and the peers' entries it merged.

import (
	"bytes"
	"context"
	"fmt"
	"math/rand"
	"sort"
	"sync"
	"testing"
	"testing/synctest"
	"time"

	"google.golang.org/protobuf/encoding/protodelim"

	"github.com/prometheus/alertmanager/alert"
	"github.com/prometheus/alertmanager/dispatch"
	"github.com/prometheus/alertmanager/nflog"
	nflogpb "github.com/prometheus/alertmanager/nflog/nflogpb"
	"github.com/prometheus/alertmanager/notify"

	"verif/harness/hx"
	"verif/harness/inst"
)

const peerTimeout = 15 * time.Second

type node struct {
	name  string
	in    *inst.Instance
	lg    *inst.Log
	up    bool
	view  map[string]bool // who this instance believes is a cluster member
	epoch int             // restarts
	runID int
}

type mesh struct {
	t      *testing.T
	mu     sync.Mutex
	vmu    sync.Mutex // views
	nodes  map[string]*node
	names  []string
	cfg    scenCfg
	agInst map[string]*node // aggregation group id -> instance (learned at flush.begin)
	part   map[string]int   // partition id per node (same id = connected)
	rng    *rand.Rand
	loss   int // percent of gossip messages lost
	maxDel time.Duration
	logs   []*inst.Log // finished runs
	nextID int
}

func nflogQ(e *nflogpb.MeshEntry) []nflog.QueryParam {
	return []nflog.QueryParam{nflog.QReceiver(e.Entry.Receiver), nflog.QGroupKey(string(e.Entry.GroupKey))}
}

func (m *mesh) position(n *node) int {
	m.vmu.Lock()
	defer m.vmu.Unlock()
	return m.positionLocked(n)
}

func (m *mesh) positionLocked(n *node) int {
	// memberlist orders peers by name; the position is the index among the members in view
	var v []string
	for p, ok := range n.view {
		if ok {
			v = append(v, p)
		}
	}
	sort.Strings(v)
	for i, p := range v {
		if p == n.name {
			return i
		}
	}
	return 0
}

func (m *mesh) start(n *node, silSnap, nfSnap []byte) {
	n.lg = &inst.Log{}
	n.epoch++
	m.nextID++
	n.runID = m.nextID
	nn := n
	in, err := inst.New(inst.Options{Name: n.name, Retention: 120 * time.Hour, AlertGCInterval: 30 * time.Minute,
		MaintenanceInterval: 30 * time.Second, NflogGCInterval: time.Minute, Log: n.lg,
		Position: func() int { return m.position(nn) }, PeerTimeout: peerTimeout, NflogSnapshot: nfSnap, SilSnapshot: silSnap})
	if err != nil {
		m.t.Fatal(err)
	}
	n.in = in
	n.up = true
	cd := m.cfg.event(nil, int64(time.Duration(m.position(n))*peerTimeout/time.Millisecond), int64(time.Duration(len(m.names)-1)*peerTimeout/time.Millisecond))
	cd["t0"] = inst.Ms()
	n.lg.Add(inst.Event{Ev: "cfg", Data: cd})
	// what the log holds after loading the snapshot is known to this instance
	if nfSnap != nil {
		m.noteEntries(n, nfSnap)
	}
	in.Nflog.SetBroadcast(func(b []byte) { m.gossip(nn, nn.epoch, b) })
	if err := in.Reload(m.cfg.yaml(m.cfg.Integs)); err != nil {
		m.t.Fatal(err)
	}
}

func decodeEntries(b []byte) []*nflogpb.MeshEntry {
	var out []*nflogpb.MeshEntry
	rd := bytes.NewReader(b)
	for rd.Len() > 0 {
		var e nflogpb.MeshEntry
		if err := protodelim.UnmarshalFrom(rd, &e); err != nil {
			break
		}
		out = append(out, &e)
	}
	return out
}

// noteEntries records the entries of b as merged into n's log (caller knows they were accepted).
func (m *mesh) noteEntries(n *node, b []byte) {
	for _, e := range decodeEntries(b) {
		fir := make([]string, 0)
		for _, h := range e.Entry.FiringAlerts {
			fir = append(fir, fmt.Sprintf("%x", h))
		}
		res := make([]string, 0)
		for _, h := range e.Entry.ResolvedAlerts {
			res = append(res, fmt.Sprintf("%x", h))
		}
		n.lg.Add(inst.Event{Ev: "nflog.merge", Gk: string(e.Entry.GroupKey), Recv: e.Entry.Receiver.GroupName,
			Integ: fmt.Sprintf("%s/%d", e.Entry.Receiver.Integration, e.Entry.Receiver.Idx), Firing: fir, Resolved: res,
			Data: map[string]any{"ts": int64(e.Entry.Timestamp.AsTime().Sub(hx.Epoch) / time.Millisecond)}})
	}
}

// gossip delivers a broadcast of `from` to every connected peer after a random delay.
func (m *mesh) gossip(from *node, epoch int, b []byte) {
	for _, name := range m.names {
		to := m.nodes[name]
		if to == from {
			continue
		}
		m.mu.Lock()
		lost := m.rng.Intn(100) < m.loss
		d := time.Duration(m.rng.Int63n(int64(m.maxDel/time.Millisecond)+1)) * time.Millisecond
		dup := m.rng.Intn(10) == 0
		m.mu.Unlock()
		if lost {
			continue
		}
		go m.deliver(from, to, b, d)
		if dup {
			go m.deliver(from, to, b, d+3*time.Second)
		}
	}
}

// deliver hands the notification-log state b of `from` to `to` after d, if both are up and connected.
func (m *mesh) deliver(from, to *node, b []byte, d time.Duration) {
	time.Sleep(d)
	m.mu.Lock()
	ok := to.up && from.up && m.part[to.name] == m.part[from.name]
	m.mu.Unlock()
	if !ok {
		return
	}
	// accepted entries = those newer than what the receiver holds
	var acc bytes.Buffer
	for _, e := range decodeEntries(b) {
		cur, err := to.in.Nflog.Query(nflogQ(e)...)
		if err == nil && len(cur) == 1 && !cur[0].Timestamp.AsTime().Before(e.Entry.Timestamp.AsTime()) {
			continue
		}
		if e.ExpiresAt.AsTime().Before(time.Now()) {
			continue
		}
		protodelim.MarshalTo(&acc, e)
	}
	if err := to.in.Nflog.Merge(b); err != nil {
		return
	}
	if acc.Len() > 0 {
		m.noteEntries(to, acc.Bytes())
	}
}

// pushPull is memberlist's periodic full-state exchange over the reliable channel: every
// interval each instance exchanges its whole notification log with one random peer, both ways.
func (m *mesh) pushPull(interval time.Duration, stop <-chan struct{}) {
	for {
		select {
		case <-stop:
			return
		case <-time.After(interval):
		}
		for _, name := range m.names {
			from := m.nodes[name]
			m.mu.Lock()
			to := m.nodes[m.names[m.rng.Intn(len(m.names))]]
			ok := from.up && to.up && to != from && m.part[to.name] == m.part[from.name]
			m.mu.Unlock()
			if !ok {
				continue
			}
			if b, err := from.in.Nflog.MarshalBinary(); err == nil && len(b) > 0 {
				m.deliver(from, to, b, 50*time.Millisecond)
			}
			if b, err := to.in.Nflog.MarshalBinary(); err == nil && len(b) > 0 {
				m.deliver(to, from, b, 50*time.Millisecond)
			}
		}
	}
}

func (m *mesh) setViews() {
	for _, n := range m.nodes {
		m.vmu.Lock()
		old := m.positionLocked(n)
		for _, p := range m.nodes {
			n.view[p.name] = p.up && m.part[p.name] == m.part[n.name]
		}
		n.view[n.name] = true
		cur := m.positionLocked(n)
		m.vmu.Unlock()
		if n.up && cur != old {
			n.lg.Add(inst.Event{Ev: "wait", Data: map[string]any{"wait": int64(time.Duration(cur) * peerTimeout / time.Millisecond)}})
		}
	}
}

func (m *mesh) finish(n *node) {
	if !n.up {
		return
	}
	n.lg.Add(inst.Event{Ev: "end"})
	n.in.Stop()
	n.up = false
	m.logs = append(m.logs, n.lg)
}

func TestCluster(t *testing.T) {
	res := hx.NewResult()
	defer res.Write()
	tw, err := hx.NewTraceWriter(*hx.Trace)
	if err != nil {
		t.Fatal(err)
	}
	defer tw.Close()
	runCounter := 0
	for sc := 0; sc < *hx.N; sc++ {
		rng := rand.New(rand.NewSource(*hx.Seed*7000003 + int64(sc)))
		res.Cases++
		synctest.Test(t, func(t *testing.T) {
			nn := 2 + rng.Intn(2)
			m := &mesh{t: t, nodes: map[string]*node{}, agInst: map[string]*node{}, part: map[string]int{}, rng: rng}
			m.cfg = scenCfg{T: []timers{{10 * time.Second, time.Minute, 4 * time.Minute}, {30 * time.Second, 5 * time.Minute, 20 * time.Minute}, {5 * time.Second, 30 * time.Second, 2 * time.Minute}}[rng.Intn(3)],
				Integs: mkIntegs([]string{"webhook"}, []bool{true}), AGC: int64(30 * time.Minute / time.Millisecond)}
			// a third of the clusters route through child routes (an alert in several groups, a second receiver)
			switch rng.Intn(6) {
			case 0:
				m.cfg.Routes = []routeCfg{{Sel: "G1", Cont: true, Recv: "r2"}, {Sel: "ALL"}}
			case 1:
				m.cfg.Routes = []routeCfg{{Sel: "AX", Cont: true, GBy: "none"}, {Sel: "CRIT", Recv: "r2"}, {Parent: 2, Sel: "G1", GBy: "all"}}
			}
			if len(m.cfg.Routes) > 0 {
				m.cfg.R2 = []integ{{Kind: "webhook", Recv: "r2", Name: "webhook/0", SR: true}}
			}
			healthy := rng.Intn(2) == 0 // no faults at all: the strict no-duplicate regime
			if healthy {
				m.loss, m.maxDel = 0, 2*time.Second
			} else {
				m.loss, m.maxDel = []int{0, 20, 60}[rng.Intn(3)], []time.Duration{2 * time.Second, 10 * time.Second, 40 * time.Second}[rng.Intn(3)]
			}
			for i := 0; i < nn; i++ {
				name := string(rune('A' + i))
				m.names = append(m.names, name)
				m.nodes[name] = &node{name: name, view: map[string]bool{}}
			}
			var killed bool
			hook := func(name string, args ...any) {
				switch name {
				case "worker.recv":
					a := args[0].(*alert.Alert)
					if n := m.nodes[string(a.Annotations["inst"])]; n != nil && n.lg != nil {
						n.lg.Add(inst.Event{Ev: "ingest", Alerts: []inst.AlertObs{{L: canonLabels(lsMap(a)), Start: ms(a.StartsAt), End: ms(a.EndsAt), Upd: ms(a.UpdatedAt)}}})
					}
				case "flush.begin":
					as := args[2].(alert.AlertSlice)
					id := agOf(args[3])
					if len(as) == 0 {
						return
					}
					n := m.nodes[string(as[0].Annotations["inst"])]
					if n == nil {
						return
					}
					m.mu.Lock()
					m.agInst[id] = n
					m.mu.Unlock()
					if killed {
						return
					}
					obs := make([]inst.AlertObs, 0, len(as))
					for _, a := range as {
						st := "firing"
						if !a.EndsAt.IsZero() {
							st = "resolved"
						}
						obs = append(obs, inst.AlertObs{L: canonLabels(lsMap(a)), Status: st, Start: ms(a.StartsAt), End: ms(a.EndsAt), Upd: ms(a.UpdatedAt)})
					}
					n.lg.Add(inst.Event{Ev: "flush.begin", Gk: args[0].(string), Ag: id, Route: args[1].(string), Alerts: obs})
				case "flush.ok", "flush.done":
					id := agOf(args[1])
					m.mu.Lock()
					n := m.agInst[id]
					m.mu.Unlock()
					if n != nil && n.lg != nil {
						n.lg.Add(inst.Event{Ev: name, Gk: args[0].(string), Ag: id})
					}
				}
			}
			dispatch.VerifPoint.Store(&hook)
			defer dispatch.VerifPoint.Store(nil)
			for _, name := range m.names {
				m.part[name] = 0
			}
			if healthy && rng.Intn(2) == 0 {
				// staggered start (not a fault): the last-named instance starts alone, at position 0, and
				// the others join a few seconds later - its position, and with it its cluster wait, changes
				// after its pipeline was built
				order := append([]string{m.names[len(m.names)-1]}, m.names[:len(m.names)-1]...)
				for i, name := range order {
					n := m.nodes[name]
					for _, p := range m.names {
						n.view[p] = p == name || m.nodes[p].up
					}
					m.start(n, nil, nil)
					m.setViews()
					if i == 0 {
						synctest.Wait()
						time.Sleep(time.Duration(2000+rng.Intn(3000))*time.Millisecond + 7*time.Millisecond)
					}
				}
				res.Count("staggered_starts", 1)
			} else {
				for _, name := range m.names {
					n := m.nodes[name]
					for _, p := range m.names {
						n.view[p] = true
					}
				}
				for _, name := range m.names {
					m.start(m.nodes[name], nil, nil)
				}
			}
			synctest.Wait()
			horizon := 3*m.cfg.T.ri + 2*time.Minute
			ppStop := make(chan struct{})
			go m.pushPull(time.Duration(40+rng.Intn(40))*time.Second, ppStop)
			firing := map[string]bool{}
			post := func(a string, resolve bool) {
				now := time.Now()
				for _, name := range m.names {
					n := m.nodes[name]
					if !n.up {
						continue
					}
					pa := inst.PostAlert{Labels: alertLabels[a], Annotations: map[string]string{"inst": name}}
					if resolve {
						x := now
						pa.EndsAt = &x
					}
					code := n.in.PostAlerts([]inst.PostAlert{pa})
					n.lg.Add(inst.Event{Ev: "post", Data: map[string]any{"a": a, "code": code}})
				}
			}
			type cev struct {
				at   time.Duration
				kind string
				a    string
				n    string
				snap bool
			}
			var evs []cev
			k := 0
			sig := func() time.Duration { k++; return time.Duration(1+(k%499)) * time.Millisecond }
			// heartbeats: Prometheus re-sends firing alerts every minute to every instance
			for at := 5 * time.Second; at < horizon; at += time.Minute {
				evs = append(evs, cev{at: at + sig(), kind: "heartbeat"})
			}
			for i := 0; i < 3+rng.Intn(5); i++ {
				at := time.Duration(rng.Int63n(int64(horizon/time.Second)))*time.Second + sig()
				a := []string{"A1", "A2", "A3"}[rng.Intn(3)]
				if rng.Intn(3) == 0 {
					evs = append(evs, cev{at: at, kind: "resolve", a: a})
				} else {
					evs = append(evs, cev{at: at, kind: "fire", a: a})
				}
			}
			if !healthy {
				for i := 0; i < 1+rng.Intn(3); i++ {
					at := time.Duration(rng.Int63n(int64(horizon/time.Second)))*time.Second + sig()
					switch rng.Intn(3) {
					case 0:
						n := m.names[rng.Intn(nn)]
						evs = append(evs, cev{at: at, kind: "crash", n: n})
						evs = append(evs, cev{at: at + time.Duration(20+rng.Intn(200))*time.Second + sig(), kind: "restart", n: n, snap: rng.Intn(2) == 0})
					case 1:
						evs = append(evs, cev{at: at, kind: "partition", n: m.names[rng.Intn(nn)]})
						evs = append(evs, cev{at: at + time.Duration(20+rng.Intn(300))*time.Second + sig(), kind: "heal"})
					default:
						evs = append(evs, cev{at: at, kind: "fire", a: "A1"})
					}
				}
			}
			sort.SliceStable(evs, func(i, j int) bool { return evs[i].at < evs[j].at })
			snaps := map[string][2][]byte{}
			for _, e := range evs {
				if d := e.at - hx.SinceEpoch(); d > 0 {
					time.Sleep(d)
				}
				synctest.Wait()
				switch e.kind {
				case "fire":
					firing[e.a] = true
					post(e.a, false)
				case "resolve":
					if firing[e.a] {
						delete(firing, e.a)
						post(e.a, true)
					}
				case "heartbeat":
					for a := range firing {
						post(a, false)
					}
				case "crash":
					n := m.nodes[e.n]
					ups := 0
					for _, p := range m.nodes {
						if p.up {
							ups++
						}
					}
					if n.up && ups > 1 { // one instance that has the alerts stays up
						s, f := n.in.Snapshots()
						snaps[e.n] = [2][]byte{s, f}
						m.finish(n)
						m.setViews()
					}
				case "restart":
					n := m.nodes[e.n]
					if !n.up {
						var s, f []byte
						if e.snap {
							s, f = snaps[e.n][0], snaps[e.n][1]
						}
						m.start(n, s, f)
						m.setViews()
					}
				case "partition":
					m.mu.Lock()
					m.part[e.n] = 1
					m.mu.Unlock()
					m.setViews()
				case "heal":
					m.mu.Lock()
					for _, name := range m.names {
						m.part[name] = 0
					}
					m.mu.Unlock()
					m.setViews()
				}
				synctest.Wait()
			}
			if d := horizon - hx.SinceEpoch(); d > 0 {
				time.Sleep(d)
			}
			synctest.Wait()
			close(ppStop)
			for _, name := range m.names {
				m.finish(m.nodes[name])
			}
			synctest.Wait()
			time.Sleep(2*m.cfg.T.gi + 2*time.Minute) // in-flight gossip goroutines end
			killed = true
			synctest.Wait()
			for _, lg := range m.logs {
				runCounter++
				for _, e := range lg.Ev {
					e.Alerts = nameAlerts(e.Alerts)
					e.Firing = namesOfHashes(e.Firing)
					e.Resolved = namesOfHashes(e.Resolved)
					tw.Emit(norm(e, runCounter))
					res.Steps++
				}
			}
			res.Count("instances", nn)
			if healthy {
				res.Count("healthy_scenarios", 1)
				// the cluster seen as ONE notifier: with timely gossip and no faults no group state is
				// delivered twice.  Merged run: inputs of instance A, flushes and deliveries of all.
				runCounter++
				var all []inst.Event
				for li, lg := range m.logs {
					for _, e := range lg.Ev {
						switch e.Ev {
						case "cfg", "ingest", "post", "end":
							if li != 0 {
								continue
							}
						case "flush.begin", "flush.ok", "flush.done", "attempt", "hangend":
						default:
							continue
						}
						if e.Ev == "cfg" {
							d := map[string]any{}
							for k, v := range e.Data.(map[string]any) {
								d[k] = v
							}
							d["wait"], d["merged"] = int64(0), true
							e.Data = d
						}
						e.Seq = e.Seq*8 + li // total order: time, then original order
						all = append(all, e)
					}
				}
				sort.SliceStable(all, func(i, j int) bool {
					if all[i].Ev == "cfg" || all[j].Ev == "cfg" {
						return all[i].Ev == "cfg" && all[j].Ev != "cfg"
					}
					if all[i].Ev == "end" || all[j].Ev == "end" {
						return all[j].Ev == "end" && all[i].Ev != "end"
					}
					if all[i].T != all[j].T {
						return all[i].T < all[j].T
					}
					return all[i].Seq < all[j].Seq
				})
				for _, e := range all {
					e.Alerts = nameAlerts(e.Alerts)
					tw.Emit(norm(e, runCounter))
					res.Steps++
				}
				res.Count("merged_runs", 1)
			}
		})
	}
}

var _ = notify.MinTimeout
var _ = context.Background
