//go:build verif

package e2e

import (
	"context"
	"encoding/json"
	"fmt"
	"os"
	"strconv"
	"strings"
	"sync"
	"testing"
	"testing/synctest"
	"time"

	"github.com/prometheus/alertmanager/alert"
	"github.com/prometheus/alertmanager/dispatch"

	"verif/harness/hx"
	"verif/harness/inst"
)

// C14: schedules of spec/Ingest.tla (which ingestion worker runs when) executed on the
// real dispatcher through the blocking verif hook between receive and route.

type ingStep struct {
	A    string `json:"a"`
	V    int    `json:"v"`
	Gver int    `json:"gver"`
}

type ingCase struct {
	Steps   []ingStep `json:"steps"`
	Latest  bool      `json:"latest"`
	InOrder bool      `json:"inorder"`
}

const ingestCfg = `
route:
  receiver: r1
  group_by: [g]
  group_wait: 10s
  group_interval: 1h
  repeat_interval: 4h
receivers:
- name: r1
  webhook_configs:
  - url: http://127.0.0.1:1/0
    send_resolved: true
`

func TestIngest(t *testing.T) {
	res := hx.NewResult()
	defer res.Write()
	resolved := map[int]bool{}
	for _, f := range strings.Split(os.Getenv("VERIF_RESOLVED"), ",") {
		if n, err := strconv.Atoi(f); err == nil {
			resolved[n] = true
		}
	}
	if len(resolved) == 0 {
		resolved = map[int]bool{2: true, 4: true}
	}
	err := hx.Lines(*hx.In, func(i int, line []byte) error {
		var c ingCase
		if err := json.Unmarshal(line, &c); err != nil {
			return err
		}
		res.Cases++
		res.Sample(line)
		synctest.Test(t, func(t *testing.T) {
			var mu sync.Mutex
			parked := map[int64]chan struct{}{} // alert UpdatedAt (ms) -> release
			hook := func(name string, args ...any) {
				if name != "worker.recv" {
					return
				}
				a := args[0].(*alert.Alert)
				ch := make(chan struct{})
				mu.Lock()
				parked[ms(a.UpdatedAt)] = ch
				mu.Unlock()
				<-ch
			}
			dispatch.VerifPoint.Store(&hook)
			defer dispatch.VerifPoint.Store(nil)
			lg := &inst.Log{}
			in, err := inst.New(inst.Options{Name: "A", Retention: 120 * time.Hour, AlertGCInterval: 1000 * time.Hour,
				MaintenanceInterval: 30 * time.Second, Log: lg})
			if err != nil {
				t.Fatal(err)
			}
			if err := in.Reload(ingestCfg); err != nil {
				t.Fatal(err)
			}
			synctest.Wait()
			updOf := map[int]int64{}
			verOf := map[int64]int{}
			bad := func(j int, what string, want, got any) {
				res.Add(hx.Mismatch{Case: i, Step: j, What: what, Want: want, Got: got, Replay: json.RawMessage(line)})
			}
			realGver := func() int {
				groups, _, err := in.R.Groups(context.Background(), func(*dispatch.Route) bool { return true }, func(*alert.Alert, time.Time) bool { return true })
				if err != nil {
					return -1
				}
				g := 0
				n := 0
				for _, grp := range groups {
					for _, a := range grp.Alerts {
						g = verOf[ms(a.UpdatedAt)]
						n++
					}
				}
				if n > 1 {
					return -2 // the alert is in two groups at once
				}
				return g
			}
			final := 0
			for j, st := range c.Steps {
				res.Steps++
				switch st.A {
				case "recv":
					time.Sleep(time.Millisecond)
					now := time.Now()
					pa := inst.PostAlert{Labels: alertLabels["A1"]}
					end := now.Add(100 * time.Hour)
					if resolved[st.V] {
						end = now
					}
					pa.EndsAt = &end
					pa.StartsAt = &now
					updOf[st.V] = inst.Ms()
					verOf[updOf[st.V]] = st.V
					if code := in.PostAlerts([]inst.PostAlert{pa}); code != 200 {
						bad(j, "POST rejected", 200, code)
						return
					}
					synctest.Wait()
					mu.Lock()
					_, ok := parked[updOf[st.V]]
					mu.Unlock()
					if !ok {
						bad(j, "no ingestion worker received the update", st.V, nil)
						return
					}
				case "proc":
					mu.Lock()
					ch := parked[updOf[st.V]]
					delete(parked, updOf[st.V])
					mu.Unlock()
					close(ch)
					synctest.Wait()
				case "flush":
					time.Sleep(3610*time.Second + 500*time.Millisecond)
					synctest.Wait()
				}
				got := realGver()
				final = got
				if got != st.Gver {
					res.Count("differs_from_model", 1)
					if res.Counters["differs_from_model"] <= 3 {
						res.Notes = append(res.Notes, fmt.Sprintf("case %d step %d (%s %d): model gver %d real %d", i, j, st.A, st.V, st.Gver, got))
					}
				}
			}
			// the property, evaluated on the real dispatcher's groups
			n := len(c.Steps)
			last := 0
			for _, st := range c.Steps {
				if st.A == "recv" && st.V > last {
					last = st.V
				}
			}
			holds := final == last || (resolved[last] && final == 0)
			_ = n
			switch {
			case holds:
				if !c.Latest {
					res.Count("F3_not_reproduced", 1)
				}
			case c.InOrder:
				bad(len(c.Steps), "updates handed over in submission order, yet the group does not hold the latest version", last, final)
			case !c.Latest && final == c.Steps[len(c.Steps)-1].Gver:
				res.Count("F3", 1)
				res.Nontrivial++
				if res.Counters["F3"] == 1 {
					res.Add(hx.Mismatch{Case: i, Step: len(c.Steps), What: "an older version overwrote a newer one (ingestion workers ran out of order)", Class: "F3", Want: last, Got: final, Replay: json.RawMessage(line)})
				}
			default:
				bad(len(c.Steps), "group does not hold the latest version, and not in the way the reordering explains", last, final)
			}
			mu.Lock()
			for k, ch := range parked {
				close(ch)
				delete(parked, k)
			}
			mu.Unlock()
			in.Stop()
			synctest.Wait()
		})
		return nil
	})
	if err != nil {
		t.Fatal(err)
	}
}

var _ = fmt.Sprint
