//go:build verif

// Package e2e runs seeded random environment scripts against one real Alertmanager
// instance (package inst) under virtual time and records every environment input,
// flush, delivery attempt and notification-log write as an ndjson trace that
// spec/mc/Trace_AM.tla validates (properties C01, C02, C04, C05, C06, C20 end to end).
package e2e

import (
	"sync"
	"context"
	"fmt"
	"math/rand"
	"runtime"
	"sort"
	"strings"
	"sync/atomic"
	"testing"
	"testing/synctest"
	"time"

	"github.com/cespare/xxhash/v2"

	"github.com/prometheus/alertmanager/alert"
	"github.com/prometheus/alertmanager/dispatch"
	"github.com/prometheus/alertmanager/inhibit"
	"github.com/prometheus/alertmanager/notify"

	"verif/harness/hx"
	"verif/harness/inst"
)

// ---------------------------------------------------------------- universe

var alertNames = []string{"A1", "A2", "A3", "A4"}

var alertLabels = map[string]map[string]string{
	"A1": {"alertname": "X", "g": "1", "sev": "warn", "a": "x"},
	"A2": {"alertname": "X", "g": "1", "sev": "warn", "a": "y"},
	"A3": {"alertname": "Y", "g": "2", "sev": "warn", "a": "x"},
	"A4": {"alertname": "S", "g": "1", "sev": "crit"},
}

// silence matcher library (name -> API matchers); mirrored in spec/AMLib.tla
type apiMatcher struct {
	Name    string `json:"name"`
	Value   string `json:"value"`
	IsRegex bool   `json:"isRegex"`
	IsEqual bool   `json:"isEqual"`
}

var silenceLib = map[string][]apiMatcher{
	"S1": {{Name: "a", Value: "x", IsEqual: true}},
	"S2": {{Name: "alertname", Value: "X|Y", IsRegex: true, IsEqual: true}},
	"S3": {{Name: "g", Value: "2", IsEqual: true}},
	"S4": {{Name: "sev", Value: "crit", IsEqual: false}, {Name: "a", Value: "y", IsEqual: true}},
}
var silenceNames = []string{"S1", "S2", "S3", "S4"}

func canonLabels(m map[string]string) string {
	names := make([]string, 0, len(m))
	for n := range m {
		names = append(names, n)
	}
	sort.Strings(names)
	var sb strings.Builder
	for i, n := range names {
		if i > 0 {
			sb.WriteByte(',')
		}
		sb.WriteString(n + "=" + m[n])
	}
	return sb.String()
}

var nameOfLabels = func() map[string]string {
	m := map[string]string{}
	for n, l := range alertLabels {
		m[canonLabels(l)] = n
	}
	return m
}()

// hashOf restates notify.hashAlert (the notification log identifies alerts by it).
func hashOf(l map[string]string) string {
	names := make([]string, 0, len(l))
	for n := range l {
		names = append(names, n)
	}
	sort.Strings(names)
	var b []byte
	for _, n := range names {
		b = append(b, n...)
		b = append(b, 0xff)
		b = append(b, l[n]...)
		b = append(b, 0xff)
	}
	return fmt.Sprintf("%x", xxhash.Sum64(b))
}

var nameOfHash = func() map[string]string {
	m := map[string]string{}
	for n, l := range alertLabels {
		m[hashOf(l)] = n
	}
	return m
}()

// ---------------------------------------------------------------- configuration

type timers struct{ gw, gi, ri time.Duration }

var timerSets = []timers{
	{30 * time.Second, 5 * time.Minute, time.Hour},
	{10 * time.Second, time.Minute, 4 * time.Minute},
	{0, 2 * time.Minute, 3 * time.Minute},
	{5 * time.Second, 5 * time.Second, 20 * time.Second},
	{20 * time.Second, 30 * time.Second, 30 * time.Second},
}

const resolveTimeout = 300500 * time.Millisecond

type integ struct {
	Kind string `json:"-"`
	Recv string `json:"recv"`
	Name string `json:"name"` // kind/index-within-kind, as notify.Integration reports it
	SR   bool   `json:"sr"`
}

// routeCfg is a child route of the scenarios (all routes group by [g]); Sel names a matcher of
// the library mirrored in spec/AMObs.tla (Sel).
type routeCfg struct {
	Parent int // 0: child of the root; i: child of Routes[i-1] (routes are listed in configuration order)
	Sel    string
	Cont   bool
	Recv   string // "": inherited
	GBy    string // "": inherited; "g": [g]; "none": []; "all": ['...']
	T      timers
	Mute   []tiv
	Active []tiv
}

var selMatcher = map[string]string{
	"ALL": `alertname=~".+"`, "G1": `g="1"`, "G2": `g="2"`, "CRIT": `sev="crit"`, "AX": `a="x"`, "NOA": `a=""`,
}

// rec is the route as the observer specification takes it (unset options: "" / -1, the
// specification applies the inheritance); rk is the route's key.
func (r routeCfg) rec(rk string) map[string]any {
	t := []int64{int64(r.T.gw / time.Millisecond), int64(r.T.gi / time.Millisecond), int64(r.T.ri / time.Millisecond)}
	if r.T == (timers{}) {
		t = []int64{-1, -1, -1}
	}
	return map[string]any{"parent": r.Parent, "rk": rk, "sel": r.Sel, "cont": r.Cont, "recv": r.Recv, "gby": r.GBy,
		"gw": t[0], "gi": t[1], "ri": t[2], "mute": nonNil(r.Mute), "active": nonNil(r.Active)}
}

// tiv is a named time interval: minutes [From, To) of every day (UTC)
type tiv struct {
	Name string `json:"name"`
	From int64  `json:"from"` // ms since midnight (= since the bubble's epoch on the first day)
	To   int64  `json:"to"`
}

func hhmm(ms int64) string { m := ms / 60000; return fmt.Sprintf("%02d:%02d", m/60, m%60) }

type scenCfg struct {
	T       timers     // the root route's timers
	Routes  []routeCfg // child routes, in order
	Integs  []integ    // integrations of receiver r1 (initial configuration)
	Alt     []integ    // integrations of r1 after a reload that changes the receiver (nil: reloads keep it)
	R2      []integ    // integrations of receiver r2 (never changed)
	Inhibit bool
	AltNoIv bool  // every other reload takes the mute / active intervals off the routes (and the next puts them back)
	AGC     int64 // the provider's alert GC interval in ms (0: never within a scenario)
	Maint   int64 // the dispatcher's maintenance interval in ms (0: not stated)
}

// event is the data of the "cfg" event: the configuration as the observer specification takes it.
func (c scenCfg) event(windows []inst.Window, wait, maxwait int64) map[string]any {
	routes := []map[string]any{}
	keys := []string{"{}"}
	for _, r := range c.Routes {
		rk := keys[r.Parent] + "/{" + selMatcher[r.Sel] + "}"
		keys = append(keys, rk)
		routes = append(routes, r.rec(rk))
	}
	if windows == nil {
		windows = []inst.Window{}
	}
	return map[string]any{
		"root": routeCfg{Sel: "ALL", Recv: "r1", GBy: "g", T: c.T}.rec("{}"), "routes": routes,
		"integs": c.allIntegs(c.Integs), "inhibit": c.Inhibit, "rt": int64(resolveTimeout / time.Millisecond),
		"windows": windows, "wait": wait, "maxwait": maxwait, "agc": c.AGC, "maint": c.Maint,
	}
}

// routeRecs are the child routes as the observer specification takes them.
func (c scenCfg) routeRecs() []map[string]any {
	return c.event(nil, 0, 0)["routes"].([]map[string]any)
}

// withoutIntervals is the configuration with every route's mute / active intervals removed.
func (c scenCfg) withoutIntervals() scenCfg {
	c2 := c
	c2.Routes = append([]routeCfg{}, c.Routes...)
	for i := range c2.Routes {
		c2.Routes[i].Mute, c2.Routes[i].Active = nil, nil
	}
	return c2
}

func (c scenCfg) allIntegs(r1 []integ) []integ {
	return append(append([]integ{}, r1...), c.R2...)
}

// maxT is the largest timer of every kind over all routes.
func (c scenCfg) maxT() timers {
	m := c.T
	for _, r := range c.Routes {
		if r.T != (timers{}) {
			m.gw, m.gi, m.ri = max(m.gw, r.T.gw), max(m.gi, r.T.gi), max(m.ri, r.T.ri)
		}
	}
	return m
}

func mkIntegs(kinds []string, srs []bool) []integ {
	// receiver.BuildReceiverIntegrations lists webhooks before e-mails
	var out []integ
	for _, kind := range []string{"webhook", "email"} {
		n := 0
		for i, k := range kinds {
			if k == kind {
				out = append(out, integ{Kind: kind, Recv: "r1", Name: fmt.Sprintf("%s/%d", kind, n), SR: srs[i]})
				n++
			}
		}
	}
	return out
}

func (c scenCfg) yaml(integs []integ) string {
	var sb strings.Builder
	fmt.Fprintf(&sb, "global:\n  resolve_timeout: %dms\n  smtp_smarthost: 'localhost:25'\n  smtp_from: 'am@example.org'\n  smtp_require_tls: false\n", resolveTimeout/time.Millisecond)
	var ivs []tiv
	for _, r := range c.Routes {
		ivs = append(append(ivs, r.Mute...), r.Active...)
	}
	if len(ivs) > 0 {
		sb.WriteString("time_intervals:\n")
		seen := map[string]bool{}
		for _, iv := range ivs {
			if seen[iv.Name] {
				continue
			}
			seen[iv.Name] = true
			fmt.Fprintf(&sb, "- name: %s\n  time_intervals:\n  - times:\n    - start_time: '%s'\n      end_time: '%s'\n", iv.Name, hhmm(iv.From), hhmm(iv.To))
		}
	}
	fmt.Fprintf(&sb, "route:\n  receiver: r1\n  group_by: [g]\n  group_wait: %s\n  group_interval: %s\n  repeat_interval: %s\n", c.T.gw, c.T.gi, c.T.ri)
	names := func(ivs []tiv) string {
		var ns []string
		for _, iv := range ivs {
			ns = append(ns, iv.Name)
		}
		return strings.Join(ns, ", ")
	}
	var render func(parent int, ind string)
	render = func(parent int, ind string) {
		first := true
		for i, r := range c.Routes {
			if r.Parent != parent {
				continue
			}
			if first {
				sb.WriteString(ind + "routes:\n")
				first = false
			}
			// the root route may not carry time intervals: the other routes do
			fmt.Fprintf(&sb, "%s- matchers: ['%s']\n%s  continue: %v\n", ind, selMatcher[r.Sel], ind, r.Cont)
			if r.Recv != "" {
				fmt.Fprintf(&sb, "%s  receiver: %s\n", ind, r.Recv)
			}
			switch r.GBy {
			case "g":
				sb.WriteString(ind + "  group_by: [g]\n")
			case "none":
				sb.WriteString(ind + "  group_by: []\n")
			case "all":
				sb.WriteString(ind + "  group_by: ['...']\n")
			}
			if r.T != (timers{}) {
				fmt.Fprintf(&sb, "%s  group_wait: %s\n%s  group_interval: %s\n%s  repeat_interval: %s\n", ind, r.T.gw, ind, r.T.gi, ind, r.T.ri)
			}
			if len(r.Mute) > 0 {
				fmt.Fprintf(&sb, "%s  mute_time_intervals: [%s]\n", ind, names(r.Mute))
			}
			if len(r.Active) > 0 {
				fmt.Fprintf(&sb, "%s  active_time_intervals: [%s]\n", ind, names(r.Active))
			}
			render(i+1, ind+"  ")
		}
	}
	render(0, "  ")
	if c.Inhibit {
		sb.WriteString("inhibit_rules:\n- source_matchers: ['sev=\"crit\"']\n  target_matchers: ['sev=\"warn\"']\n  equal: [g]\n")
	}
	sb.WriteString("receivers:\n")
	for _, rc := range []struct {
		name string
		ins  []integ
	}{{"r1", integs}, {"r2", c.R2}} {
		if rc.name == "r2" && len(rc.ins) == 0 {
			continue
		}
		fmt.Fprintf(&sb, "- name: %s\n", rc.name)
		for _, kind := range []string{"webhook", "email"} {
			first := true
			for i, it := range rc.ins {
				if it.Kind != kind {
					continue
				}
				if first {
					fmt.Fprintf(&sb, "  %s_configs:\n", kind)
					first = false
				}
				if kind == "webhook" {
					fmt.Fprintf(&sb, "  - url: http://127.0.0.1:1/%s/%d\n    send_resolved: %v\n", rc.name, i, it.SR)
				} else {
					fmt.Fprintf(&sb, "  - to: 'oncall%d@%s.example.org'\n    send_resolved: %v\n", i, rc.name, it.SR)
				}
			}
		}
	}
	return sb.String()
}

// ---------------------------------------------------------------- driver

type envEvent struct {
	at   time.Duration
	kind string // post | silence | expire | reload
	a    string
	mode string // fire | end | resolve
	d    time.Duration
	ms   string
	soff time.Duration
	sdur time.Duration
	sidx int
}

func genScenario(rng *rand.Rand) (scenCfg, []envEvent, []inst.Window, time.Duration) {
	cfg := scenCfg{T: timerSets[rng.Intn(len(timerSets))], Inhibit: rng.Intn(3) == 0, AGC: int64(30 * time.Minute / time.Millisecond), Maint: 30000}
	switch rng.Intn(6) {
	case 0:
		cfg.Integs = mkIntegs([]string{"webhook"}, []bool{rng.Intn(2) == 0})
	case 1: // a reload adds a webhook in front of the e-mail integration
		cfg.Integs = mkIntegs([]string{"email"}, []bool{true})
		cfg.Alt = mkIntegs([]string{"webhook", "email"}, []bool{rng.Intn(2) == 0, true})
	case 2: // a reload removes the first webhook
		cfg.Integs = mkIntegs([]string{"webhook", "webhook"}, []bool{true, false})
		cfg.Alt = mkIntegs([]string{"webhook"}, []bool{true})
	default:
		cfg.Integs = mkIntegs([]string{"webhook", "webhook"}, []bool{true, rng.Intn(3) == 0})
	}
	flap := rng.Intn(4) == 0 // a resolve / re-fire pair around a flush tick with a slow receiver
	tOf := func() timers {
		if flap || rng.Intn(2) == 0 {
			return timers{} // not set: inherited from the parent route
		}
		return timerSets[rng.Intn(len(timerSets))]
	}
	routeKind := rng.Intn(17)
	switch routeKind {
	case 4: // a continuing route to a second receiver in front of a catch-all
		cfg.Routes = []routeCfg{{Sel: "G1", Cont: true, Recv: "r2", T: tOf()}, {Sel: "ALL"}}
	case 5: // first match wins: critical alerts to r2, the rest stays with the root
		cfg.Routes = []routeCfg{{Sel: "CRIT", Recv: "r2", T: tOf()}}
	case 6: // overlapping selectors, only the first continues
		cfg.Routes = []routeCfg{{Sel: "AX", Cont: true, Recv: "r2", T: tOf()}, {Sel: "G1", Recv: "r1", T: tOf()}, {Sel: "ALL", Recv: "r2"}}
	case 7: // a selector on a missing label; two routes to the same receiver
		cfg.Routes = []routeCfg{{Sel: "NOA", Cont: true, Recv: "r2"}, {Sel: "G2", Recv: "r2", T: tOf()}}
	case 8: // everything continues: every alert in several groups
		cfg.Routes = []routeCfg{{Sel: "G1", Cont: true, Recv: "r1", T: tOf()}, {Sel: "AX", Cont: true, Recv: "r2", T: tOf()}, {Sel: "ALL", Cont: true, Recv: "r2"}}
	case 9: // nested: an intermediate route (muted for a while) whose child has no intervals of its own
		cfg.Routes = []routeCfg{{Sel: "G1", Recv: "r1", T: tOf()}, {Parent: 1, Sel: "AX", Recv: "r2"}, {Sel: "ALL"}}
	case 10: // nested under a continuing catch-all with its own receiver and timers; options inherited two levels down
		cfg.Routes = []routeCfg{{Sel: "ALL", Cont: true, Recv: "r2", T: tOf()}, {Parent: 1, Sel: "CRIT", Recv: "r1", GBy: "none"},
			{Parent: 1, Sel: "G2"}, {Parent: 3, Sel: "AX", Cont: true}, {Sel: "G1", Recv: "r1"}}
	}
	if len(cfg.Routes) > 0 && !flap {
		// some child routes group differently: one group for everything / one group per alert
		for i := range cfg.Routes {
			switch rng.Intn(5) {
			case 0:
				cfg.Routes[i].GBy = "none"
			case 1:
				cfg.Routes[i].GBy = "all"
			}
		}
	}
	for _, r := range cfg.Routes {
		if r.Recv == "r2" && cfg.R2 == nil {
			cfg.R2 = []integ{{Kind: "webhook", Recv: "r2", Name: "webhook/0", SR: rng.Intn(2) == 0}}
			if rng.Intn(3) == 0 {
				cfg.R2 = append(cfg.R2, integ{Kind: "email", Recv: "r2", Name: "email/0", SR: true})
			}
		}
	}
	mt := cfg.maxT()
	horizon := 3*mt.ri + 4*mt.gi + 2*time.Minute
	if horizon > 5*time.Hour {
		horizon = 5 * time.Hour
	}
	hmin := int64(horizon / time.Minute)
	mkiv := func(name string) tiv {
		from := 1 + rng.Int63n(max(hmin-3, 1))
		length := 2 + rng.Int63n(int64(2*cfg.T.gi/time.Minute)+6)
		to := from + length
		if to > 23*60 {
			to = 23 * 60
		}
		return tiv{Name: name, From: from * 60000, To: to * 60000}
	}
	// time intervals live on child routes (the root may not carry any)
	all := routeCfg{Sel: "ALL"}
	switch routeKind {
	case 0:
		all.Mute = []tiv{mkiv("m1")}
		cfg.Routes = []routeCfg{all}
		cfg.AltNoIv = rng.Intn(2) == 0
	case 1:
		all.Mute = []tiv{mkiv("m1"), mkiv("m2")}
		cfg.Routes = []routeCfg{all}
	case 2:
		all.Active = []tiv{{Name: "a1", From: 0, To: (1 + rng.Int63n(max(hmin, 1))) * 60000}}
		cfg.Routes = []routeCfg{all}
	case 3:
		all.Mute = []tiv{mkiv("m1")}
		all.Active = []tiv{mkiv("a1"), {Name: "a2", From: 0, To: 2 * 60000}}
		cfg.Routes = []routeCfg{all}
	case 4, 7, 9: // one of several routes is muted for a while
		cfg.AltNoIv = rng.Intn(2) == 0
		cfg.Routes[0].Mute = []tiv{mkiv("m1")}
	case 10:
		cfg.Routes[2].Active = []tiv{{Name: "a1", From: 0, To: (1 + rng.Int63n(max(hmin, 1))) * 60000}}
	}
	n := 6 + rng.Intn(14)
	var evs []envEvent
	nsil := 0
	for k := 0; k < n; k++ {
		// every environment event has its own millisecond signature: never at the same
		// instant as another one, as a timer derived from another one, or as an alert end
		sig := time.Duration(1+(k%499)) * time.Millisecond
		at := time.Duration(rng.Int63n(int64(horizon/time.Second)))*time.Second + sig
		// cluster some events shortly after each other
		if k > 0 && rng.Intn(3) == 0 {
			at = evs[k-1].at/time.Second*time.Second + time.Duration(1+rng.Intn(40))*time.Second + sig
		}
		e := envEvent{at: at}
		switch c := rng.Intn(100); {
		case c < 62:
			e.kind = "post"
			e.a = alertNames[rng.Intn(len(alertNames))]
			switch m := rng.Intn(10); {
			case m < 5:
				e.mode = "fire"
			case m < 8:
				e.mode = "end"
				e.d = time.Duration(1+rng.Intn(int(2*cfg.T.gi/time.Second)+60))*time.Second + 500*time.Millisecond
			default:
				e.mode = "resolve"
			}
		case c < 80:
			e.kind = "silence"
			e.ms = silenceNames[rng.Intn(len(silenceNames))]
			e.soff = time.Duration(rng.Intn(3)) * time.Duration(rng.Intn(90)) * time.Second
			e.sdur = time.Duration(10+rng.Intn(int(2*cfg.T.gi/time.Second)+120))*time.Second + 250*time.Millisecond
			nsil++
		case c < 90:
			if nsil == 0 {
				e.kind = "post"
				e.a = "A1"
				e.mode = "fire"
			} else if rng.Intn(2) == 0 {
				e.kind = "expire"
				e.sidx = rng.Intn(nsil)
			} else {
				// the end of an existing silence is moved (extended or cut short)
				e.kind = "silupdate"
				e.sidx = rng.Intn(nsil)
				e.sdur = time.Duration(5+rng.Intn(int(2*cfg.T.gi/time.Second)+90))*time.Second + 125*time.Millisecond
			}
		default:
			e.kind = "reload"
			if rng.Intn(2) == 0 {
				e.a = alertNames[rng.Intn(len(alertNames))] // resolved right after the reload
			}
		}
		evs = append(evs, e)
	}
	ws := []inst.Window{}
	names := []integ{}
	for _, it := range append(append(append([]integ{}, cfg.Integs...), cfg.Alt...), cfg.R2...) {
		names = append(names, it)
	}
	for i := 0; i < rng.Intn(3); i++ {
		from := time.Duration(rng.Int63n(int64(horizon/time.Second)))*time.Second + 750*time.Millisecond
		dur := time.Duration(1+rng.Intn(int(cfg.T.gi/time.Second)*2+30)) * time.Second
		kind := []string{"rec", "rec", "unrec", "hang", "slow"}[rng.Intn(5)]
		wi := names[rng.Intn(len(names))]
		w := inst.Window{Recv: wi.Recv, Integ: wi.Name, From: int64(from / time.Millisecond), To: int64((from + dur) / time.Millisecond), Kind: kind}
		ws = append(ws, w)
		if wi.Recv == "r1" && len(cfg.Integs) > 1 && rng.Intn(2) == 0 {
			// a sibling in trouble at the same time: one fails for good while the other is retrying
			other := cfg.Integs[0].Name
			if other == w.Integ {
				other = cfg.Integs[1].Name
			}
			k2 := map[string]string{"rec": "unrec", "unrec": "rec", "hang": "unrec", "slow": "unrec"}[kind]
			ws = append(ws, inst.Window{Recv: "r1", Integ: other, From: w.From + 1000, To: w.To + 3000, Kind: k2})
		}
	}
	if flap {
		// A1 fires early; around the k-th flush tick of its group it resolves just before
		// the tick and fires again just after it, while the resolved notification is still
		// being delivered (slow receiver)
		t0 := 2*time.Second + 499*time.Millisecond
		evs = append(evs, envEvent{at: t0, kind: "post", a: "A1", mode: "fire"})
		k := 1 + rng.Intn(3)
		tick := t0 + cfg.T.gw + time.Duration(k)*cfg.T.gi
		before := time.Duration(100+rng.Intn(400)) * time.Millisecond
		after := time.Duration(100+rng.Intn(400)) * time.Millisecond
		evs = append(evs, envEvent{at: tick - before, kind: "post", a: "A1", mode: "resolve"})
		evs = append(evs, envEvent{at: tick + after, kind: "post", a: "A1", mode: "fire"})
		for _, it := range cfg.allIntegs(cfg.Integs) {
			if it.SR {
				ws = append(ws, inst.Window{Recv: it.Recv, Integ: it.Name, From: int64((tick - time.Second) / time.Millisecond), To: int64((tick + time.Second) / time.Millisecond), Kind: "slow"})
			}
		}
		// keep other events on A1 and reloads away from the flap
		keep := evs[:0]
		for _, e := range evs {
			near := e.at > tick-2*cfg.T.gi-time.Minute && e.at < tick+2*cfg.T.gi+time.Minute
			isFlap := e.at == tick-before || e.at == tick+after || e.at == t0
			if isFlap || !(e.at < tick+time.Minute && (e.a == "A1" || e.kind == "reload" || e.kind == "silence")) && !(near && e.kind == "reload") {
				keep = append(keep, e)
			}
		}
		evs = keep
	}
	if !flap && rng.Intn(3) == 0 {
		// an alert the receiver has been told about resolves, and the configuration is reloaded
		// before the next flush of its group: the new dispatcher must still report the resolution
		a := alertNames[rng.Intn(len(alertNames))]
		mt := cfg.maxT()
		t0 := time.Duration(1+rng.Intn(60))*time.Second + 477*time.Millisecond
		tr := t0 + mt.gw + time.Duration(1+rng.Intn(3))*mt.gi + 3*time.Second + 20*time.Millisecond
		evs = append(evs, envEvent{at: t0, kind: "post", a: a, mode: "fire"},
			envEvent{at: tr, kind: "post", a: a, mode: "resolve"},
			envEvent{at: tr + time.Duration(200+rng.Intn(1500))*time.Millisecond, kind: "reload"})
	}
	if !flap && len(cfg.Integs) >= 2 && cfg.Alt == nil && rng.Intn(4) == 0 {
		// one integration of the receiver fails for good (every flush runs into its deadline) while
		// its sibling is healthy and a group stays unchanged for longer than repeat_interval: the
		// sibling's repeats must still arrive on time
		mt := cfg.maxT()
		t0 := 3*time.Second + 611*time.Millisecond
		end := t0 + mt.gw + mt.ri + 6*mt.gi + time.Minute
		ws = append(ws, inst.Window{Recv: "r1", Integ: cfg.Integs[1].Name, From: 1000, To: int64(end / time.Millisecond), Kind: "rec"})
		for t := t0; t < end; t += 4 * time.Minute {
			evs = append(evs, envEvent{at: t + time.Duration(len(evs)%97)*time.Millisecond, kind: "post", a: "A2", mode: "fire"})
		}
		horizon = max(horizon, end+mt.gi)
	}
	if cfg.AltNoIv && len(cfg.Routes[0].Mute) > 0 {
		// a group is muted by its route's interval, then a reload takes the interval off the route:
		// the following flushes notify and the API no longer reports the group as muted
		iv := cfg.Routes[0].Mute[0]
		from := time.Duration(iv.From) * time.Millisecond
		mt := cfg.maxT()
		a := map[string]string{"ALL": "A2", "G1": "A2", "NOA": "A4"}[cfg.Routes[0].Sel]
		if a != "" && time.Duration(iv.To-iv.From)*time.Millisecond > mt.gw+mt.gi+20*time.Second {
			rl := from + mt.gw + mt.gi + time.Duration(3+rng.Intn(10))*time.Second + 41*time.Millisecond
			evs = append(evs, envEvent{at: from + time.Second + 43*time.Millisecond, kind: "post", a: a, mode: "fire"},
				envEvent{at: rl, kind: "reload"},
				envEvent{at: rl + mt.gw + mt.gi + 5*time.Second + 44*time.Millisecond, kind: "post", a: a, mode: "fire"})
		}
	}
	if cfg.Inhibit && rng.Intn(3) == 0 {
		// two reloads with a garbage collection of the alert store (every 30 minutes) between them,
		// then an inhibiting source and its target: the inhibitor started by the second reload must
		// still be fed by the store
		gc := 30 * time.Minute
		evs = append(evs, envEvent{at: gc - time.Duration(2+rng.Intn(20))*time.Minute + 311*time.Millisecond, kind: "reload"},
			envEvent{at: gc + time.Duration(30+rng.Intn(120))*time.Second + 312*time.Millisecond, kind: "reload"},
			envEvent{at: gc + 4*time.Minute + 313*time.Millisecond, kind: "post", a: "A4", mode: "fire"},
			envEvent{at: gc + 4*time.Minute + 20*time.Second + 314*time.Millisecond, kind: "post", a: "A1", mode: "fire"})
		horizon = max(horizon, gc+6*time.Minute+2*cfg.maxT().gi)
	}
	sort.SliceStable(evs, func(i, j int) bool { return evs[i].at < evs[j].at })
	return cfg, evs, ws, horizon
}

type flushObs struct {
	Gk     string          `json:"gk"`
	Alerts []inst.AlertObs `json:"alerts"`
}

func nameAlerts(as []inst.AlertObs) []inst.AlertObs {
	out := make([]inst.AlertObs, len(as))
	for i, a := range as {
		if n, ok := nameOfLabels[a.L]; ok {
			a.L = n
		}
		out[i] = a
	}
	sort.Slice(out, func(i, j int) bool { return out[i].L < out[j].L })
	return out
}

func namesOfHashes(hs []string) []string {
	out := make([]string, len(hs))
	for i, h := range hs {
		if n, ok := nameOfHash[h]; ok {
			out[i] = n
		} else {
			out[i] = "?" + h
		}
	}
	sort.Strings(out)
	return out
}

func TestScenarios(t *testing.T) {
	res := hx.NewResult()
	defer res.Write()
	tw, err := hx.NewTraceWriter(*hx.Trace)
	if err != nil {
		t.Fatal(err)
	}
	defer tw.Close()
	for run := 0; run < *hx.N; run++ {
		rng := rand.New(rand.NewSource(*hx.Seed*1000003 + int64(run)))
		cfg, evs, windows, horizon := genScenario(rng)
		res.Cases++
		synctest.Test(t, func(t *testing.T) {
			lg := &inst.Log{}
			var killed atomic.Bool
			var reloading atomic.Bool
			var ticks sync.Map // aggregation group id -> the timer instant its current flush uses as "now"
			hook := func(name string, args ...any) {
				if name == "group.loaded" && reloading.Load() {
					// the new dispatcher is routing the provider's alerts it found at start-up:
					// make that take a while, so that an update submitted right after the reload
					// would overtake it if loading did not complete first
					time.Sleep(700 * time.Millisecond)
				}
				switch name {
				case "flush.tick":
					ticks.Store(agOf(args[2]), ms(args[1].(time.Time)))
				case "flush.begin":
					if killed.Load() {
						runtime.Goexit() // a group that survived the shutdown of its dispatcher: end it
					}
					as := args[2].(alert.AlertSlice)
					obs := make([]inst.AlertObs, 0, len(as))
					for _, a := range as {
						st := "firing"
						if !a.EndsAt.IsZero() { // flush freezes firing alerts without end
							st = "resolved"
						}
						obs = append(obs, inst.AlertObs{L: canonLabels(lsMap(a)), Status: st, Start: ms(a.StartsAt), End: ms(a.EndsAt), Upd: ms(a.UpdatedAt)})
					}
					lg.Add(inst.Event{Ev: "flush.begin", Gk: args[0].(string), Ag: agOf(args[3]), Route: args[1].(string), Alerts: obs, TickNow: tickOf(&ticks, agOf(args[3]))})
				case "flush.ok", "flush.done":
					lg.Add(inst.Event{Ev: name, Gk: args[0].(string), Ag: agOf(args[1])})
				case "worker.recv":
					a := args[0].(*alert.Alert)
					lg.Add(inst.Event{Ev: "ingest", Alerts: []inst.AlertObs{{L: canonLabels(lsMap(a)), Start: ms(a.StartsAt), End: ms(a.EndsAt), Upd: ms(a.UpdatedAt)}}})
				}
			}
			dispatch.VerifPoint.Store(&hook)
			defer dispatch.VerifPoint.Store(nil)
			// the new inhibitor takes a while over each alert it finds at start-up: a reload that did
			// not wait for it would answer the API and flush with inhibition missing
			ihook := func(name string, args ...any) {
				if name == "initial.alert" && reloading.Load() {
					time.Sleep(1500 * time.Millisecond)
				}
			}
			inhibit.VerifPoint.Store(&ihook)
			defer inhibit.VerifPoint.Store(nil)
			in, err := inst.New(inst.Options{Name: "A", Retention: 120 * time.Hour, AlertGCInterval: 30 * time.Minute,
				MaintenanceInterval: 30 * time.Second, NflogGCInterval: time.Minute, Log: lg, Windows: windows})
			if err != nil {
				t.Fatal(err)
			}
			lg.Add(inst.Event{Ev: "cfg", Data: cfg.event(windows, 0, 0)})
			cur := cfg.Integs
			if err := in.Reload(cfg.yaml(cur)); err != nil {
				t.Fatalf("reload: %v\n%s", err, cfg.yaml(cur))
			}
			synctest.Wait()
			var silIDs []string
			stripped := false // the running configuration has its intervals removed
			type silRec struct {
				ms    string
				start time.Time
			}
			var silRecs []silRec
			for _, e := range evs {
				if d := e.at - hx.SinceEpoch(); d > 0 {
					time.Sleep(d)
				} else {
					// events that fell due while a slow reload was running: never two at one instant
					time.Sleep(time.Duration(3+len(e.kind)) * time.Millisecond)
				}
				synctest.Wait()
				switch e.kind {
				case "post":
					pa := inst.PostAlert{Labels: alertLabels[e.a]}
					now := time.Now()
					switch e.mode {
					case "end":
						x := now.Add(e.d)
						pa.EndsAt = &x
						if e.d%(2*time.Second) < time.Second { // as Prometheus does: start given too
							y := now
							pa.StartsAt = &y
						}
					case "resolve":
						x := now
						pa.EndsAt = &x
					}
					code := in.PostAlerts([]inst.PostAlert{pa})
					lg.Add(inst.Event{Ev: "post", Data: map[string]any{"a": e.a, "mode": e.mode, "d": int64(e.d / time.Millisecond), "code": code}})
				case "silence":
					now := time.Now()
					st := now.Add(e.soff)
					en := st.Add(e.sdur)
					code, id := in.PostSilence(map[string]any{"matchers": silenceLib[e.ms], "startsAt": st.Format(time.RFC3339Nano),
						"endsAt": en.Format(time.RFC3339Nano), "createdBy": "u", "comment": "c"})
					if code == 200 {
						silIDs = append(silIDs, id)
						silRecs = append(silRecs, silRec{ms: e.ms, start: st})
					}
					lg.Add(inst.Event{Ev: "sil.set", Data: map[string]any{"ms": e.ms, "start": inst.Ms() + int64(e.soff/time.Millisecond),
						"end": inst.Ms() + int64((e.soff+e.sdur)/time.Millisecond), "code": code, "idx": len(silIDs) - 1}})
				case "silupdate":
					if e.sidx < len(silIDs) {
						rec := silRecs[e.sidx]
						en := time.Now().Add(e.sdur)
						code, id := in.PostSilence(map[string]any{"id": silIDs[e.sidx], "matchers": silenceLib[rec.ms], "startsAt": rec.start.Format(time.RFC3339Nano),
							"endsAt": en.Format(time.RFC3339Nano), "createdBy": "u", "comment": "moved"})
						if code != 200 {
							lg.Add(inst.Event{Ev: "sil.update", Data: map[string]any{"idx": e.sidx, "code": code, "start": 0, "end": 0}})
							break
						}
						// what the API says is stored now is the observer's input (the update rules are C12's)
						var got struct {
							StartsAt time.Time `json:"startsAt"`
							EndsAt   time.Time `json:"endsAt"`
						}
						if in.Get("/api/v2/silence/"+id, &got) != 200 {
							t.Fatalf("silence %s not readable after its update", id)
						}
						if id == silIDs[e.sidx] {
							lg.Add(inst.Event{Ev: "sil.update", Data: map[string]any{"idx": e.sidx, "code": code, "start": ms(got.StartsAt), "end": ms(got.EndsAt)}})
						} else {
							// the old silence had expired: the API created a new one
							silIDs = append(silIDs, id)
							silRecs = append(silRecs, silRec{ms: rec.ms, start: got.StartsAt})
							lg.Add(inst.Event{Ev: "sil.set", Data: map[string]any{"ms": rec.ms, "start": ms(got.StartsAt), "end": ms(got.EndsAt), "code": code, "idx": len(silIDs) - 1}})
						}
					}
				case "expire":
					if e.sidx < len(silIDs) {
						code := in.DeleteSilence(silIDs[e.sidx])
						lg.Add(inst.Event{Ev: "sil.expire", Data: map[string]any{"idx": e.sidx, "code": code}})
					}
				case "reload":
					if cfg.Alt != nil {
						if len(cur) == len(cfg.Integs) {
							cur = cfg.Alt
						} else {
							cur = cfg.Integs
						}
					}
					if cfg.AltNoIv {
						stripped = !stripped
					}
					rc := cfg
					if stripped {
						rc = cfg.withoutIntervals()
					}
					lg.Add(inst.Event{Ev: "reloading", Data: map[string]any{"integs": rc.allIntegs(cur), "routes": rc.routeRecs()}})
					reloading.Store(true)
					if err := in.Reload(rc.yaml(cur)); err != nil {
						t.Fatalf("reload: %v", err)
					}
					reloading.Store(false)
					lg.Add(inst.Event{Ev: "reload"})
					// what the API reports the moment the reload has returned (inhibitor and dispatcher
					// have loaded the existing alerts by then)
					apiViews(in, lg)
					if e.a != "" {
						// ... and an update submitted at once
						time.Sleep(time.Millisecond)
						now := time.Now()
						pa := inst.PostAlert{Labels: alertLabels[e.a], EndsAt: &now}
						code := in.PostAlerts([]inst.PostAlert{pa})
						lg.Add(inst.Event{Ev: "post", Data: map[string]any{"a": e.a, "mode": "resolve", "d": 0, "code": code}})
					}
				}
				synctest.Wait()
				snapshotGroups(in, lg)
				apiViews(in, lg)
			}
			if d := horizon - hx.SinceEpoch(); d > 0 {
				time.Sleep(d)
			}
			synctest.Wait()
			snapshotGroups(in, lg)
			lg.Add(inst.Event{Ev: "end"})
			in.Stop()
			synctest.Wait()
			// nothing may happen after the shutdown: watch for a while, then end whatever survived
			time.Sleep(2*cfg.maxT().gi + 15*time.Second)
			synctest.Wait()
			killed.Store(true)
			time.Sleep(2*cfg.maxT().gi + 15*time.Second)
			synctest.Wait()
			for _, e := range lg.Ev {
				e.Inst = fmt.Sprint(run)
				e.Alerts = nameAlerts(e.Alerts)
				e.Firing = namesOfHashes(e.Firing)
				e.Resolved = namesOfHashes(e.Resolved)
				tw.Emit(norm(e, run))
				res.Steps++
			}
		})
	}
}

// labelSetString prints labels as model.LabelSet.String does (the group-label part of a group key).
func labelSetString(l map[string]string) string {
	ks := make([]string, 0, len(l))
	for k := range l {
		ks = append(ks, k)
	}
	sort.Strings(ks)
	parts := make([]string, 0, len(ks))
	for _, k := range ks {
		parts = append(parts, fmt.Sprintf("%s=%q", k, l[k]))
	}
	return "{" + strings.Join(parts, ", ") + "}"
}

func nonNil(x []tiv) []tiv {
	if x == nil {
		return []tiv{}
	}
	return x
}

// tickOf is the timer instant recorded for the group's current flush (-1: unknown).
func tickOf(m *sync.Map, ag string) int64 {
	if v, ok := m.Load(ag); ok {
		return v.(int64)
	}
	return -1
}

func agOf(x any) string {
	id, _ := notify.AggrGroupID(x.(context.Context))
	return id
}

func lsMap(a *alert.Alert) map[string]string {
	m := map[string]string{}
	for k, v := range a.Labels {
		m[string(k)] = string(v)
	}
	return m
}

func ms(t time.Time) int64 {
	if t.IsZero() {
		return -1
	}
	return int64(t.Sub(hx.Epoch) / time.Millisecond)
}

// apiViews records what GET /api/v2/alerts and GET /api/v2/alerts/groups report.
func apiViews(in *inst.Instance, lg *inst.Log) {
	var alerts []struct {
		Labels    map[string]string `json:"labels"`
		Receivers []struct {
			Name string `json:"name"`
		} `json:"receivers"`
		Status struct {
			State       string   `json:"state"`
			SilencedBy  []string `json:"silencedBy"`
			InhibitedBy []string `json:"inhibitedBy"`
		} `json:"status"`
	}
	if in.Get("/api/v2/alerts", &alerts) == 200 {
		out := []map[string]any{}
		for _, a := range alerts {
			n := nameOfLabels[canonLabels(a.Labels)]
			recvs := []string{}
			for _, r := range a.Receivers {
				recvs = append(recvs, r.Name)
			}
			out = append(out, map[string]any{"l": n, "state": a.Status.State, "nsil": len(a.Status.SilencedBy), "ninh": len(a.Status.InhibitedBy), "recvs": recvs})
		}
		sort.Slice(out, func(i, j int) bool { return out[i]["l"].(string) < out[j]["l"].(string) })
		lg.Add(inst.Event{Ev: "api.alerts", Data: map[string]any{"alerts": out}})
	}
	var groups []struct {
		Labels   map[string]string `json:"labels"`
		Receiver struct {
			Name string `json:"name"`
		} `json:"receiver"`
		Alerts []struct {
			Labels map[string]string `json:"labels"`
			Status struct {
				State       string   `json:"state"`
				SilencedBy  []string `json:"silencedBy"`
				InhibitedBy []string `json:"inhibitedBy"`
				MutedBy     []string `json:"mutedBy"`
			} `json:"status"`
		} `json:"alerts"`
	}
	if in.Get("/api/v2/alerts/groups", &groups) == 200 {
		out := []map[string]any{}
		for _, g := range groups {
			names := []string{}
			muted := map[string]bool{}
			sts := []map[string]any{}
			for _, a := range g.Alerts {
				names = append(names, nameOfLabels[canonLabels(a.Labels)])
				sts = append(sts, map[string]any{"l": nameOfLabels[canonLabels(a.Labels)], "state": a.Status.State,
					"nsil": len(a.Status.SilencedBy), "ninh": len(a.Status.InhibitedBy), "nmut": len(a.Status.MutedBy)})
				for _, m := range a.Status.MutedBy {
					muted[m] = true
				}
			}
			sort.Strings(names)
			mb := []string{}
			for m := range muted {
				mb = append(mb, m)
			}
			sort.Strings(mb)
			out = append(out, map[string]any{"lbl": labelSetString(g.Labels), "recv": g.Receiver.Name, "alerts": names, "mutedby": mb, "st": sts})
		}
		sort.SliceStable(out, func(i, j int) bool { return out[i]["lbl"].(string) < out[j]["lbl"].(string) })
		lg.Add(inst.Event{Ev: "api.groups", Data: map[string]any{"groups": out}})
	}
}

func snapshotGroups(in *inst.Instance, lg *inst.Log) {
	groups, _, err := in.R.Groups(context.Background(), func(*dispatch.Route) bool { return true }, func(*alert.Alert, time.Time) bool { return true })
	if err != nil {
		return
	}
	out := []flushObs{}
	for _, g := range groups {
		as := []inst.AlertObs{}
		for _, a := range g.Alerts {
			as = append(as, inst.AlertObs{L: canonLabels(lsMap(a)), Start: ms(a.StartsAt), End: ms(a.EndsAt), Upd: ms(a.UpdatedAt)})
		}
		out = append(out, flushObs{Gk: g.GroupKey, Alerts: nameAlerts(as)})
	}
	lg.Add(inst.Event{Ev: "groups", Data: map[string]any{"groups": out}})
}

// norm gives every event the same JSON shape (TLC records).
func norm(e inst.Event, run int) map[string]any {
	if e.Alerts == nil {
		e.Alerts = []inst.AlertObs{}
	}
	if e.Firing == nil {
		e.Firing = []string{}
	}
	if e.Resolved == nil {
		e.Resolved = []string{}
	}
	if e.Data == nil {
		e.Data = map[string]any{}
	}
	return map[string]any{
		"run": run, "seq": e.Seq, "t": e.T, "ev": e.Ev, "gk": e.Gk, "ag": e.Ag, "recv": e.Recv, "integ": e.Integ, "alerts": e.Alerts,
		"outcome": e.Outcome, "deadline": e.Deadline, "st": e.Start, "tick": e.TickNow, "firing": e.Firing, "resolved": e.Resolved, "data": e.Data,
	}
}
