package c13

// Concurrent histories of ONE real provider (provider/mem) + the real api/v2 handler:
// several goroutines call Put (directly and through POST /api/v2/alerts), Get, GET
// /api/v2/alerts, Subscribe / SlurpAndSubscribe with real concurrency while at least two
// subscribers read their channels - one of them deliberately slow, so that its channel
// (capacity 200) is full and a Put blocks in the middle of its fan-out - and, in some
// histories, the provider's GC ticker runs.  Every goroutine logs CALL / RETURN / RECEIVE
// events in its own buffer with a number drawn from one atomic counter (just before the
// call, just after the return / the channel receive); the buffers are merged by that
// number, never by wall-clock time.  spec/mc/Trace_AlertsConc.tla decides whether a
// history is linearizable with respect to spec/AlertsConc.tla; a quiescence oracle
// (last version every subscriber learned for a label set = the stored one) runs here.
//
// Model time: the instant Now0 = 10 of the specification is `base` (the start of the
// history, truncated to a second); unit = 1 hour.  Every submission carries explicit
// startsAt / endsAt whole hours away from base, so that no merge outcome depends on the
// wall clock.  UpdatedAt stamps are read before the provider mutex is taken (by the
// harness for a direct Put as postAlertsHandler does for a POST); they are recorded (for a
// POST by the wrapper through which the handler reaches the provider) and handed to the
// specification as ranks.

import (
	"bytes"
	"context"
	"encoding/json"
	"fmt"
	"math/rand"
	"net/http"
	"net/http/httptest"
	"runtime"
	"sort"
	"strconv"
	"sync"
	"sync/atomic"
	"time"

	"github.com/prometheus/client_golang/prometheus"
	"github.com/prometheus/common/model"
	"github.com/prometheus/common/promslog"

	"github.com/prometheus/alertmanager/alert"
	apiv2 "github.com/prometheus/alertmanager/api/v2"
	"github.com/prometheus/alertmanager/config"
	"github.com/prometheus/alertmanager/dispatch"
	"github.com/prometheus/alertmanager/eventrecorder"
	"github.com/prometheus/alertmanager/featurecontrol"
	"github.com/prometheus/alertmanager/matcher/compat"
	"github.com/prometheus/alertmanager/provider"
	"github.com/prometheus/alertmanager/provider/mem"
	"github.com/prometheus/alertmanager/silence"
)

const (
	concNow0 = 10
	concUnit = time.Hour
)

// ConcVer is one version of an alert in model units.
type ConcVer struct {
	Ls    string `json:"ls"`
	S     int    `json:"s"`
	E     int    `json:"e"`
	Tag   int    `json:"tag"`
	U     int    `json:"u"`
	stamp int64  // UpdatedAt, ns since the start of the history (monotonic); -1 unknown
}

type concEv struct {
	seq int64
	e   string // call | ret | recv
	o   int
	k   string
	b   []ConcVer
	ls  string
	sub string
	r   []ConcVer
	d   []string
	m   ConcVer
}

type concBuf struct {
	evs []concEv
}

// concProvider is what the API handler talks to: the real provider of the current
// history; Put notes the UpdatedAt stamp the handler gave the alerts.
type concProvider struct {
	cur atomic.Pointer[concHist]
}

func (p *concProvider) Subscribe(name string) provider.AlertIterator {
	return p.cur.Load().prov.Subscribe(name)
}

func (p *concProvider) SlurpAndSubscribe(name string) ([]*alert.Alert, provider.AlertIterator) {
	return p.cur.Load().prov.SlurpAndSubscribe(name)
}
func (p *concProvider) GetPending() provider.AlertIterator { return p.cur.Load().prov.GetPending() }
func (p *concProvider) Get(fp model.Fingerprint) (*alert.Alert, error) {
	return p.cur.Load().prov.Get(fp)
}

func (p *concProvider) Put(ctx context.Context, alerts ...*alert.Alert) error {
	h := p.cur.Load()
	for _, a := range alerts {
		if t, err := strconv.Atoi(string(a.Annotations["tag"])); err == nil && t > 0 && t < len(h.stampOf) {
			h.stampOf[t] = a.UpdatedAt.Sub(h.t0).Nanoseconds()
		}
	}
	h.pending.Add(1)
	defer h.pending.Add(-1)
	return h.prov.Put(ctx, alerts...)
}

// ConcAPI is the per-runner part: one real api/v2 handler over the wrapper.
type ConcAPI struct {
	wrap    *concProvider
	handler http.Handler
}

func NewConcAPI() (*ConcAPI, error) {
	compatOnce.Do(func() {
		compat.InitFromFlags(promslog.NewNopLogger(), featurecontrol.NoopFlags{})
	})
	logger := promslog.NewNopLogger()
	reg := prometheus.NewRegistry()
	sil, err := silence.New(silence.Options{Retention: time.Hour, Metrics: reg, Logger: logger, EventRecorder: eventrecorder.NopRecorder()})
	if err != nil {
		return nil, err
	}
	silencer := silence.NewSilencer(sil, logger, eventrecorder.NopRecorder())
	w := &concProvider{}
	gf := func(context.Context, func(*dispatch.Route) bool, func(*alert.Alert, time.Time) bool) (dispatch.AlertGroups, map[model.Fingerprint][]string, error) {
		return dispatch.AlertGroups{}, map[model.Fingerprint][]string{}, nil
	}
	v2, err := apiv2.NewAPI(w, gf, func(string, string) ([]string, bool) { return nil, false }, sil, nil, logger, reg)
	if err != nil {
		return nil, err
	}
	cfg, err := config.Load(ConfigYAML(5 * time.Minute))
	if err != nil {
		return nil, err
	}
	v2.Update(cfg, func(ctx context.Context, ls model.LabelSet) { silencer.Mutes(ctx, ls) })
	return &ConcAPI{wrap: w, handler: v2.Handler}, nil
}

// ---------------------------------------------------------------- one history

type concOp struct {
	K   string // put post get geta sub slurp
	B   []ConcVer
	Ls  string
	Sub string
}

type concSub struct {
	name  string
	it    provider.AlertIterator
	buf   *concBuf
	known map[string]ConcVer // last version learned per label set
	done  chan struct{}
}

type gcLog struct {
	mu     sync.Mutex
	closed bool
	buf    concBuf
	dead   []string
	opn    int
}

type concHist struct {
	run     int
	rng     *rand.Rand
	api     *ConcAPI
	prov    *mem.Alerts
	base    time.Time // model instant Now0
	t0      time.Time // stamps are measured from here (monotonic)
	seq     atomic.Int64
	stampOf []int64
	mu      sync.Mutex
	bufs    []*concBuf
	subs    []*concSub
	gc      *gcLog
	gcOn    bool
	nextTag int
	pending atomic.Int32 // Put calls in flight
	wg      sync.WaitGroup
	lsets   []string
	failed  string
}

// ConcStats describes one history (vacuity counters).
type ConcStats struct {
	Events        int
	Ops           int
	OverlapSameLs bool // two Puts holding one label set overlapped in time
	BlockedPut    bool // a Put was in flight while the slow subscriber's channel was full and nothing moved
	PutVsSub      bool // a Put overlapped a Subscribe / SlurpAndSubscribe
	GCDeleted     int
	Merged        int // received versions whose times differ from every submitted version with that tag
	Oracle        []string
	Lines         [][]byte
	Harness       string
}

func (h *concHist) newBuf() *concBuf {
	b := &concBuf{}
	h.mu.Lock()
	h.bufs = append(h.bufs, b)
	h.mu.Unlock()
	return b
}

func (h *concHist) tick() int64 { return h.seq.Add(1) }

func (h *concHist) instant(u int) time.Time {
	return h.base.Add(time.Duration(u-concNow0) * concUnit)
}

func concLabels(ls string) model.LabelSet {
	return model.LabelSet{"alertname": "conc", "ls": model.LabelValue(ls)}
}

func (h *concHist) mkAlert(v ConcVer, upd time.Time) *alert.Alert {
	a := &alert.Alert{}
	a.Labels = concLabels(v.Ls)
	a.Annotations = model.LabelSet{"tag": model.LabelValue(strconv.Itoa(v.Tag))}
	a.StartsAt = h.instant(v.S)
	a.EndsAt = h.instant(v.E)
	a.UpdatedAt = upd
	return a
}

func (h *concHist) units(t time.Time) int {
	d := t.Sub(h.base)
	if d%concUnit != 0 {
		return -1
	}
	return int(d/concUnit) + concNow0
}

// verOf projects a real alert onto model units; ok is false for alerts outside the model
// (filler, sentinel).
func (h *concHist) verOf(a *alert.Alert) (ConcVer, bool) {
	if a.Labels["alertname"] != "conc" {
		return ConcVer{}, false
	}
	tag, _ := strconv.Atoi(string(a.Annotations["tag"]))
	return ConcVer{Ls: string(a.Labels["ls"]), S: h.units(a.StartsAt), E: h.units(a.EndsAt), Tag: tag,
		stamp: a.UpdatedAt.Sub(h.t0).Nanoseconds()}, true
}

var (
	fillLabels     = model.LabelSet{"alertname": "fill"}
	sentinelLabels = model.LabelSet{"alertname": "sentinel"}
)

func (h *concHist) plainAlert(ls model.LabelSet) *alert.Alert {
	a := &alert.Alert{}
	a.Labels = ls
	a.StartsAt = h.base.Add(-time.Hour)
	a.EndsAt = h.base.Add(24 * time.Hour)
	a.UpdatedAt = time.Now()
	return a
}

// ---- operations (each logs its call and return into the caller's buffer)

func (h *concHist) doPut(buf *concBuf, o int, k string, b []ConcVer) {
	buf.evs = append(buf.evs, concEv{seq: h.tick(), e: "call", o: o, k: k, b: b})
	if k == "put" {
		upd := time.Now() // as postAlertsHandler: one clock reading per batch, before the provider mutex
		as := make([]*alert.Alert, len(b))
		for i, v := range b {
			as[i] = h.mkAlert(v, upd)
			h.stampOf[v.Tag] = upd.Sub(h.t0).Nanoseconds()
		}
		h.pending.Add(1)
		err := h.prov.Put(context.Background(), as...)
		h.pending.Add(-1)
		if err != nil {
			h.fail("Put: " + err.Error())
		}
	} else {
		body := make([]PostedAlert, len(b))
		for i, v := range b {
			s, e := h.instant(v.S), h.instant(v.E)
			body[i] = PostedAlert{Labels: map[string]string{"alertname": "conc", "ls": v.Ls}, StartsAt: &s, EndsAt: &e}
		}
		raw := make([]map[string]any, len(b))
		for i, v := range b {
			raw[i] = map[string]any{"labels": body[i].Labels, "annotations": map[string]string{"tag": strconv.Itoa(v.Tag)},
				"startsAt": body[i].StartsAt.Format(time.RFC3339Nano), "endsAt": body[i].EndsAt.Format(time.RFC3339Nano)}
		}
		w := h.serve("POST", "/api/v2/alerts", raw)
		if w.Code != 200 {
			h.fail(fmt.Sprintf("POST /api/v2/alerts: %d %s", w.Code, w.Body.String()))
		}
	}
	buf.evs = append(buf.evs, concEv{seq: h.tick(), e: "ret", o: o})
}

func (h *concHist) serve(method, path string, body any) *httptest.ResponseRecorder {
	var rd *bytes.Reader
	if body != nil {
		b, _ := json.Marshal(body)
		rd = bytes.NewReader(b)
	} else {
		rd = bytes.NewReader(nil)
	}
	req := httptest.NewRequest(method, path, rd)
	if body != nil {
		req.Header.Set("Content-Type", "application/json")
	}
	w := httptest.NewRecorder()
	h.api.handler.ServeHTTP(w, req)
	return w
}

func (h *concHist) doGet(buf *concBuf, o int, ls string) []ConcVer {
	buf.evs = append(buf.evs, concEv{seq: h.tick(), e: "call", o: o, k: "get", ls: ls})
	a, err := h.prov.Get(concLabels(ls).Fingerprint())
	r := []ConcVer{}
	if err == nil {
		if v, ok := h.verOf(a); ok {
			r = append(r, v)
		}
	}
	buf.evs = append(buf.evs, concEv{seq: h.tick(), e: "ret", o: o, r: r})
	return r
}

func (h *concHist) doGetAll(buf *concBuf, o int) []ConcVer {
	buf.evs = append(buf.evs, concEv{seq: h.tick(), e: "call", o: o, k: "geta"})
	w := h.serve("GET", "/api/v2/alerts", nil)
	r := []ConcVer{}
	if w.Code != 200 {
		h.fail(fmt.Sprintf("GET /api/v2/alerts: %d", w.Code))
	} else {
		var raw []struct {
			Labels      map[string]string `json:"labels"`
			Annotations map[string]string `json:"annotations"`
			StartsAt    time.Time         `json:"startsAt"`
			EndsAt      time.Time         `json:"endsAt"`
		}
		if err := json.Unmarshal(w.Body.Bytes(), &raw); err != nil {
			h.fail("GET payload: " + err.Error())
		}
		for _, x := range raw {
			if x.Labels["alertname"] != "conc" {
				continue
			}
			tag, _ := strconv.Atoi(x.Annotations["tag"])
			r = append(r, ConcVer{Ls: x.Labels["ls"], S: h.units(x.StartsAt), E: h.units(x.EndsAt), Tag: tag, stamp: -2})
		}
	}
	buf.evs = append(buf.evs, concEv{seq: h.tick(), e: "ret", o: o, r: r})
	return r
}

// doSub subscribes (through the provider interface the API uses as well) and returns the
// subscriber; its reader is started by the caller.
func (h *concHist) doSub(buf *concBuf, o int, k, name string) *concSub {
	buf.evs = append(buf.evs, concEv{seq: h.tick(), e: "call", o: o, k: k, sub: name})
	s := &concSub{name: name, buf: h.newBuf(), known: map[string]ConcVer{}, done: make(chan struct{})}
	r := []ConcVer{}
	if k == "sub" {
		s.it = h.prov.Subscribe(name)
	} else {
		var as []*alert.Alert
		as, s.it = h.prov.SlurpAndSubscribe(name)
		for _, a := range as {
			if v, ok := h.verOf(a); ok {
				r = append(r, v)
				s.known[v.Ls] = v
			}
		}
	}
	buf.evs = append(buf.evs, concEv{seq: h.tick(), e: "ret", o: o, r: r})
	h.mu.Lock()
	h.subs = append(h.subs, s)
	h.mu.Unlock()
	return s
}

func (h *concHist) fail(msg string) {
	h.mu.Lock()
	if h.failed == "" {
		h.failed = msg
	}
	h.mu.Unlock()
}

// take handles one received alert; true = the sentinel (everything written before it has
// been received: one channel per subscriber, first in first out).
func (h *concHist) take(s *concSub, a *provider.Alert) bool {
	seq := h.tick()
	if a == nil {
		return true
	}
	if a.Data.Labels["alertname"] == "sentinel" {
		return true
	}
	if v, ok := h.verOf(a.Data); ok {
		s.buf.evs = append(s.buf.evs, concEv{seq: seq, e: "recv", sub: s.name, m: v})
		s.known[v.Ls] = v
	}
	return false
}

func (h *concHist) reader(s *concSub) {
	defer close(s.done)
	for a := range s.it.Next() {
		if h.take(s, a) {
			return
		}
	}
}

// slowReader reads only what the driver allows: n > 0 messages, or everything (n < 0).
func (h *concHist) slowReader(s *concSub, gate <-chan int) {
	defer close(s.done)
	for n := range gate {
		if n < 0 {
			for a := range s.it.Next() {
				if h.take(s, a) {
					return
				}
			}
			return
		}
		for i := 0; i < n; i++ {
			if h.take(s, <-s.it.Next()) {
				return
			}
		}
	}
}

// ---- the provider's GC as an operation of the ticker goroutine

func (g *gcLog) PostDelete(a *alert.Alert) {
	if a.Labels["alertname"] == "conc" {
		g.dead = append(g.dead, string(a.Labels["ls"]))
	}
}

type gcCallback struct {
	g *gcLog
	h *concHist
}

func (c gcCallback) PreStore(*alert.Alert, bool) error { return nil }
func (c gcCallback) PostStore(*alert.Alert, bool)      {}
func (c gcCallback) PostDelete(a *alert.Alert)         { c.g.PostDelete(a) }
func (c gcCallback) PostGC(model.Fingerprints) {
	g, h := c.g, c.h
	g.mu.Lock()
	defer g.mu.Unlock()
	d := g.dead
	g.dead = nil
	if g.closed || len(d) == 0 {
		return
	}
	sort.Strings(d)
	g.buf.evs = append(g.buf.evs, concEv{seq: h.tick(), e: "ret", o: g.opn, d: d})
	g.opn++
	g.buf.evs = append(g.buf.evs, concEv{seq: h.tick(), e: "call", o: g.opn, k: "gc"})
}

// ---- script

var (
	concStarts = []int{concNow0 - 4, concNow0 - 3}
	concFiring = []int{concNow0 + 2, concNow0 + 4, concNow0 + 6}
	concPast   = []int{concNow0 - 2, concNow0 - 1}
)

func (h *concHist) version(ls string, kind int) ConcVer {
	h.nextTag++
	v := ConcVer{Ls: ls, Tag: h.nextTag, S: concStarts[h.rng.Intn(len(concStarts))], stamp: -1}
	if h.rng.Intn(3) > 0 {
		v.S = concNow0 - 3
	}
	switch kind {
	case 0: // fire
		v.E = concFiring[0]
	case 1: // refresh with a later end
		v.E = concFiring[1+h.rng.Intn(2)]
	default: // resolve
		v.E = concPast[h.rng.Intn(len(concPast))]
	}
	return v
}

func (h *concHist) randVersion() ConcVer {
	return h.version(h.lsets[h.rng.Intn(len(h.lsets))], h.rng.Intn(3))
}

func (h *concHist) randBatch() []ConcVer {
	n := 1
	switch x := h.rng.Intn(20); {
	case x < 9:
		n = 1
	case x < 16:
		n = 2
	default:
		n = 3
	}
	b := make([]ConcVer, n)
	for i := range b {
		b[i] = h.randVersion()
	}
	return b
}

func (h *concHist) putKind() string {
	if h.rng.Intn(5) < 2 {
		return "post"
	}
	return "put"
}

// script draws the programs of the worker goroutines.  Besides plain random programs it
// shapes the windows that matter: a resolve racing a larger batch that ends with the same
// alert's firing refresh; two Puts of one label set; a Put against a (Slurp)Subscribe.
func (h *concHist) script() [][]concOp {
	ng := 3 + h.rng.Intn(2)
	progs := make([][]concOp, ng)
	nsub := 0
	for g := range progs {
		n := 2 + h.rng.Intn(4)
		for i := 0; i < n; i++ {
			switch x := h.rng.Intn(100); {
			case x < 62:
				progs[g] = append(progs[g], concOp{K: h.putKind(), B: h.randBatch()})
			case x < 74:
				progs[g] = append(progs[g], concOp{K: "get", Ls: h.lsets[h.rng.Intn(len(h.lsets))]})
			case x < 84:
				progs[g] = append(progs[g], concOp{K: "geta"})
			default:
				if nsub < 2 {
					nsub++
					k := "sub"
					if h.rng.Intn(2) == 0 {
						k = "slurp"
					}
					progs[g] = append(progs[g], concOp{K: k, Sub: fmt.Sprintf("T%d", nsub)})
				} else {
					progs[g] = append(progs[g], concOp{K: h.putKind(), B: h.randBatch()})
				}
			}
		}
	}
	x := h.lsets[h.rng.Intn(len(h.lsets))]
	switch h.rng.Intn(4) {
	case 0: // resolve racing a larger batch whose last element refreshes the same alert
		big := []ConcVer{h.randVersion(), h.version(x, 1)}
		if h.rng.Intn(2) == 0 {
			big = append([]ConcVer{h.randVersion()}, big...)
		}
		progs[0][0] = concOp{K: h.putKind(), B: big}
		progs[1][0] = concOp{K: h.putKind(), B: []ConcVer{h.version(x, 2)}}
	case 1: // two Puts of one label set
		progs[0][0] = concOp{K: h.putKind(), B: []ConcVer{h.version(x, h.rng.Intn(3))}}
		progs[1][0] = concOp{K: h.putKind(), B: []ConcVer{h.version(x, h.rng.Intn(3))}}
	case 2: // a batch against a subscription
		if nsub < 2 {
			nsub++
			k := "sub"
			if h.rng.Intn(2) == 0 {
				k = "slurp"
			}
			progs[0][0] = concOp{K: h.putKind(), B: []ConcVer{h.randVersion(), h.version(x, h.rng.Intn(3))}}
			progs[1][0] = concOp{K: k, Sub: fmt.Sprintf("T%d", nsub)}
		}
	}
	return progs
}

func waitTimeout(ch <-chan struct{}, d time.Duration) bool {
	select {
	case <-ch:
		return true
	case <-time.After(d):
		return false
	}
}

// RunConcHistory runs one history on a fresh provider.
func RunConcHistory(api *ConcAPI, run int, seed int64) *ConcStats {
	h := &concHist{run: run, rng: rand.New(rand.NewSource(seed*1000003 + int64(run))), api: api}
	st := &ConcStats{}
	h.lsets = []string{"a", "b", "c"}[:2+h.rng.Intn(2)]
	h.stampOf = make([]int64, 256)
	for i := range h.stampOf {
		h.stampOf[i] = -1
	}
	h.t0 = time.Now()
	h.base = h.t0.Truncate(time.Second)
	h.gc = &gcLog{opn: 9000}
	gcPer := 100000 * time.Hour
	if h.rng.Intn(4) == 0 {
		h.gcOn = true
		gcPer = time.Duration(20+h.rng.Intn(400)) * time.Microsecond
	}
	prov, err := mem.NewAlerts(context.Background(), gcPer, 0, gcCallback{h.gc, h}, promslog.NewNopLogger(),
		eventrecorder.NopRecorder(), prometheus.NewRegistry(), featurecontrol.NoopFlags{})
	if err != nil {
		st.Harness = err.Error()
		return st
	}
	h.prov = prov
	api.wrap.cur.Store(h)
	defer prov.Close()

	drv := h.newBuf()
	h.mu.Lock()
	h.bufs = append(h.bufs, &h.gc.buf)
	h.mu.Unlock()
	h.gc.mu.Lock()
	h.gc.buf.evs = append(h.gc.buf.evs, concEv{seq: h.tick(), e: "call", o: h.gc.opn, k: "gc"})
	h.gc.mu.Unlock()

	opn := 0
	next := func() int { opn++; return opn }
	kinds := []string{"sub", "slurp"}
	// some stored alerts first, so that snapshots are not empty
	for _, x := range h.lsets {
		if h.rng.Intn(3) == 0 {
			h.doPut(drv, next(), "put", []ConcVer{h.version(x, h.rng.Intn(3))})
		}
	}
	fast := h.doSub(drv, next(), kinds[h.rng.Intn(2)], "F")
	go h.reader(fast)
	slow := h.doSub(drv, next(), kinds[h.rng.Intn(2)], "S")
	gate := make(chan int, 8)
	go h.slowReader(slow, gate)
	for _, x := range h.lsets {
		if h.rng.Intn(2) == 0 {
			h.doPut(drv, next(), h.putKind(), []ConcVer{h.version(x, h.rng.Intn(2))})
		}
	}
	// the slow subscriber's channel is filled up to `free` places with alerts outside the model
	slowCh := slow.it.Next()
	free := h.rng.Intn(4)
	if n := cap(slowCh) - len(slowCh) - free; n > 0 {
		f := h.plainAlert(fillLabels)
		fill := make([]*alert.Alert, n)
		for i := range fill {
			fill[i] = f
		}
		if err := prov.Put(context.Background(), fill...); err != nil {
			h.fail(err.Error())
		}
	}

	progs := h.script()
	var started, finished atomic.Int32
	barrier := make(chan struct{})
	allDone := make(chan struct{})
	for g, prog := range progs {
		buf := h.newBuf()
		spin := make([]int, len(prog))
		for i := range spin {
			if h.rng.Intn(3) == 0 {
				spin[i] = h.rng.Intn(300)
			}
		}
		go func(g int, prog []concOp, buf *concBuf) {
			started.Add(1)
			<-barrier
			for i, op := range prog {
				for k := 0; k < spin[i]; k++ {
					runtime.Gosched()
				}
				o := (g+1)*100 + i
				switch op.K {
				case "put", "post":
					h.doPut(buf, o, op.K, op.B)
				case "get":
					h.doGet(buf, o, op.Ls)
				case "geta":
					h.doGetAll(buf, o)
				case "sub", "slurp":
					s := h.doSub(buf, o, op.K, op.Sub)
					go h.reader(s)
				}
			}
			if finished.Add(1) == int32(len(progs)) {
				close(allDone)
			}
		}(g, prog, buf)
		st.Ops += len(prog)
	}
	for started.Load() < int32(len(progs)) {
		runtime.Gosched()
	}
	close(barrier)

	// stuck: nothing has been logged for `quiet` while a Put is in flight and the slow
	// subscriber's channel is full (a Put blocked in its fan-out, everyone else behind it)
	stuck := func(limit time.Duration) (blocked, done bool) {
		const quiet = 40 * time.Microsecond
		t0 := time.Now()
		last, since := h.seq.Load(), t0
		for {
			if finished.Load() == int32(len(progs)) {
				return false, true
			}
			runtime.Gosched()
			now := time.Now()
			if cur := h.seq.Load(); cur != last {
				last, since = cur, now
			} else if now.Sub(since) > quiet && h.pending.Load() > 0 && len(slowCh) == cap(slowCh) {
				return true, false
			}
			if now.Sub(t0) > limit {
				return false, false
			}
		}
	}
	stages := h.rng.Intn(3)
	for i := 0; i <= stages; i++ {
		blocked, done := stuck(3 * time.Millisecond)
		if blocked {
			st.BlockedPut = true
		}
		if done {
			break
		}
		if i < stages {
			gate <- 1 + h.rng.Intn(4)
		}
	}
	gate <- -1
	if !waitTimeout(allDone, 20*time.Second) {
		st.Harness = "worker goroutines did not finish within 20 s"
		return st
	}
	// quiescence: everything written before the sentinel has been received
	if err := prov.Put(context.Background(), h.plainAlert(sentinelLabels)); err != nil {
		h.fail(err.Error())
	}
	h.mu.Lock()
	subs := append([]*concSub(nil), h.subs...)
	h.mu.Unlock()
	for _, s := range subs {
		if !waitTimeout(s.done, 20*time.Second) {
			st.Harness = "subscriber " + s.name + " did not see the sentinel within 20 s"
			return st
		}
	}
	final := map[string][]ConcVer{}
	for _, x := range h.lsets {
		final[x] = h.doGet(drv, 9100+len(final), x)
	}
	shown := h.doGetAll(drv, 9200)
	h.gc.mu.Lock()
	h.gc.closed = true
	h.gc.mu.Unlock()
	for _, s := range subs {
		s.it.Close()
	}
	if h.failed != "" {
		st.Harness = h.failed
		return st
	}

	// ---- merge the buffers by the global counter, rank the stamps
	var evs []concEv
	for _, b := range h.bufs {
		evs = append(evs, b.evs...)
	}
	sort.Slice(evs, func(i, j int) bool { return evs[i].seq < evs[j].seq })
	stamps := map[int64]bool{}
	for i := range evs {
		for j := range evs[i].b {
			evs[i].b[j].stamp = h.stampOf[evs[i].b[j].Tag]
			stamps[evs[i].b[j].stamp] = true
		}
	}
	order := make([]int64, 0, len(stamps))
	for s := range stamps {
		order = append(order, s)
	}
	sort.Slice(order, func(i, j int) bool { return order[i] < order[j] })
	rank := map[int64]int{}
	for i, s := range order {
		rank[s] = i + 1
	}
	fix := func(vs []ConcVer) {
		for i := range vs {
			if vs[i].stamp == -2 {
				vs[i].U = 0
			} else if r, ok := rank[vs[i].stamp]; ok {
				vs[i].U = r
			} else {
				vs[i].U = 999 // a stamp nobody submitted
			}
		}
	}
	submitted := map[int]ConcVer{}
	for i := range evs {
		fix(evs[i].b)
		fix(evs[i].r)
		if evs[i].e == "recv" {
			one := []ConcVer{evs[i].m}
			fix(one)
			evs[i].m = one[0]
		}
		for _, v := range evs[i].b {
			submitted[v.Tag] = v
		}
	}
	for _, s := range subs {
		for x, v := range s.known {
			one := []ConcVer{v}
			fix(one)
			s.known[x] = one[0]
		}
	}
	for x := range final {
		fix(final[x])
	}

	// ---- the quiescence oracle
	for _, s := range subs {
		for _, x := range h.lsets {
			k, known := s.known[x]
			if len(final[x]) == 1 {
				f := final[x][0]
				if !known || k != f {
					st.Oracle = append(st.Oracle, fmt.Sprintf("subscriber %s last learned %s for label set %s, the provider holds %s", s.name, verString(k, known), x, verString(f, true)))
				}
			} else if known && k.E > concNow0 {
				st.Oracle = append(st.Oracle, fmt.Sprintf("subscriber %s last learned the firing version %s for label set %s, the provider holds no alert", s.name, verString(k, true), x))
			}
		}
	}
	for _, x := range h.lsets {
		vis := false
		for _, v := range shown {
			if v.Ls == x {
				vis = true
			}
		}
		if want := len(final[x]) == 1 && final[x][0].E > concNow0; want != vis {
			st.Oracle = append(st.Oracle, fmt.Sprintf("GET /api/v2/alerts lists label set %s: %v, the provider holds %v", x, vis, final[x]))
		}
	}

	// ---- vacuity counters
	type span struct {
		c, r int64
		k    string
		ls   map[string]bool
		u    int
	}
	spans := map[int]*span{}
	for _, e := range evs {
		switch e.e {
		case "call":
			sp := &span{c: e.seq, r: 1 << 62, k: e.k, ls: map[string]bool{}}
			for _, v := range e.b {
				sp.ls[v.Ls] = true
				sp.u = v.U
			}
			spans[e.o] = sp
		case "ret":
			if sp := spans[e.o]; sp != nil {
				sp.r = e.seq
			}
			st.GCDeleted += len(e.d)
		case "recv":
			if sv, ok := submitted[e.m.Tag]; ok && (sv.S != e.m.S || sv.E != e.m.E) {
				st.Merged++
			}
		}
	}
	isPut := func(k string) bool { return k == "put" || k == "post" }
	for o1, a := range spans {
		for o2, b := range spans {
			if o1 >= o2 || a.c > b.r || b.c > a.r {
				continue
			}
			if isPut(a.k) && isPut(b.k) {
				for x := range a.ls {
					if b.ls[x] {
						st.OverlapSameLs = true
					}
				}
			}
			if (isPut(a.k) && (b.k == "sub" || b.k == "slurp")) || (isPut(b.k) && (a.k == "sub" || a.k == "slurp")) {
				st.PutVsSub = true
			}
		}
	}

	// ---- the history as ndjson
	st.Events = len(evs)
	for _, e := range evs {
		st.Lines = append(st.Lines, e.line(run))
	}
	st.Lines = append(st.Lines, []byte(fmt.Sprintf(`{"run":%d,"e":"end"}`, run)))
	return st
}

func verString(v ConcVer, ok bool) string {
	if !ok {
		return "nothing"
	}
	return fmt.Sprintf("[start %+d h, end %+d h, tag %d, stamp #%d]", v.S-concNow0, v.E-concNow0, v.Tag, v.U)
}

func nn(v []ConcVer) []ConcVer {
	if v == nil {
		return []ConcVer{}
	}
	return v
}

func (e concEv) line(run int) []byte {
	var x any
	switch e.e {
	case "call":
		x = struct {
			Run int       `json:"run"`
			E   string    `json:"e"`
			O   int       `json:"o"`
			K   string    `json:"k"`
			B   []ConcVer `json:"b"`
			Ls  string    `json:"ls"`
			Sub string    `json:"sub"`
		}{run, e.e, e.o, e.k, nn(e.b), e.ls, e.sub}
	case "ret":
		d := e.d
		if d == nil {
			d = []string{}
		}
		x = struct {
			Run int       `json:"run"`
			E   string    `json:"e"`
			O   int       `json:"o"`
			R   []ConcVer `json:"r"`
			D   []string  `json:"d"`
		}{run, e.e, e.o, nn(e.r), d}
	default:
		x = struct {
			Run int     `json:"run"`
			E   string  `json:"e"`
			Sub string  `json:"sub"`
			M   ConcVer `json:"m"`
		}{run, e.e, e.sub, e.m}
	}
	b, err := json.Marshal(x)
	if err != nil {
		panic(err)
	}
	return b
}
