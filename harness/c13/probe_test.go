package c13

import (
	"fmt"
	"testing"
	"testing/synctest"
	"time"
)

func TestProbe(t *testing.T) {
	synctest.Test(t, func(t *testing.T) {
		y, err := New(Options{Unit: time.Minute, RT: 2, GCPer: 3})
		if err != nil {
			t.Fatal(err)
		}
		defer y.Close()
		time.Sleep(y.O.Unit / 2)
		fmt.Println("now", y.Now(), y.OnGrid())
		tm := func(u int64) *time.Time { x := y.T(u); return &x }
		w := y.Do("POST", "/api/v2/alerts", []PostedAlert{
			{Labels: map[string]string{"alertname": "A", "sev": "p", "c": ""}},
			{Labels: map[string]string{"alertname": "B", "": "x"}},
			{Labels: map[string]string{"c": ""}},
			{Labels: map[string]string{"alertname": "B", "b": "y"}, StartsAt: tm(3), EndsAt: tm(1)},
			{Labels: map[string]string{"alertname": "B", "b": "y", "sev": "p"}, EndsAt: tm(5)},
		})
		fmt.Println("POST", w.Code, w.Body.String())
		code, got, err := y.GetAlerts()
		fmt.Println("GET", code, err)
		for _, g := range got {
			fmt.Printf("  %+v\n", g)
		}
		w = y.Do("POST", "/api/v2/alerts", []map[string]any{{"annotations": map[string]string{"x": "y"}}})
		fmt.Println("POST nolabels", w.Code, w.Body.String())
		w = y.Do("POST", "/api/v2/alerts", []map[string]any{{"labels": map[string]string{}}})
		fmt.Println("POST emptylabels", w.Code, w.Body.String())
		w = y.Do("POST", "/api/v2/silences", map[string]any{
			"matchers":  []map[string]any{{"name": "sev", "value": "p", "isRegex": false, "isEqual": true}},
			"startsAt":  y.T(0), "endsAt": y.T(1000), "createdBy": "v", "comment": "c"})
		fmt.Println("POST sil", w.Code, w.Body.String())
		time.Sleep(4 * y.O.Unit)
		synctest.Wait()
		fmt.Println("now", y.Now(), "deleted", y.Deleted())
		code, got, err = y.GetAlerts()
		fmt.Println("GET", code, err)
		for _, g := range got {
			fmt.Printf("  %+v\n", g)
		}
		v, ok := y.Counter("alertmanager_alerts_limited_total")
		fmt.Println("counter", v, ok)
	})
}
