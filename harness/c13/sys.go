// Package c13 holds the in-process Alertmanager API instance used by the conformance
// harnesses of C13 (alert ingestion contract) and C18 (limits): the real mem.Alerts
// provider, the real silence store + Silencer (as the provider's callback, as in
// app.setup), the real api/v2 handler (optionally behind the real api.New limiter and
// mux), configured from a YAML string by the real config.Load.  Nothing listens on a
// socket: requests go through http.Handler.ServeHTTP with httptest recorders.
package c13

import (
	"bytes"
	"context"
	"encoding/json"
	"fmt"
	"net/http"
	"net/http/httptest"
	"sort"
	"sync"
	"time"

	"github.com/prometheus/client_golang/prometheus"
	dto "github.com/prometheus/client_model/go"
	"github.com/prometheus/common/model"
	"github.com/prometheus/common/promslog"
	"github.com/prometheus/common/route"

	"github.com/prometheus/alertmanager/alert"
	"github.com/prometheus/alertmanager/api"
	apiv2 "github.com/prometheus/alertmanager/api/v2"
	"github.com/prometheus/alertmanager/config"
	"github.com/prometheus/alertmanager/dispatch"
	"github.com/prometheus/alertmanager/eventrecorder"
	"github.com/prometheus/alertmanager/featurecontrol"
	"github.com/prometheus/alertmanager/matcher/compat"
	"github.com/prometheus/alertmanager/provider/mem"
	"github.com/prometheus/alertmanager/silence"

	"verif/harness/hx"
)

// Options of one instance.  Durations are in model time units.
type Options struct {
	Unit        time.Duration
	RT          int64 // resolve_timeout
	Limit       int   // per-alert-name limit (0 = none)
	GCPer       int64 // alert GC period (0 = never within any scenario)
	FullAPI     bool  // api.New + Register (limiter, mux) instead of api/v2 alone
	Concurrency int
	GroupFunc   func(context.Context, func(*dispatch.Route) bool, func(*alert.Alert, time.Time) bool) (dispatch.AlertGroups, map[model.Fingerprint][]string, error)
	// ParkFunc, if set, is served at GET /-/park by the main router handed to api.Register
	// (a non-API route that goes through the same concurrency limiter).
	ParkFunc http.HandlerFunc
}

// Sys is one in-process instance.  Model time t is the instant Origin + t*Unit; the
// provider is created at Origin - Unit/2, so that its GC ticker (period GCPer units)
// fires half a unit before the model instants k*GCPer: never at the instant of a
// request and never at the end instant of an alert.
type Sys struct {
	O        Options
	Origin   time.Time
	Reg      *prometheus.Registry
	Alerts   *mem.Alerts
	Sil      *silence.Silences
	Silencer *silence.Silencer
	Handler  http.Handler
	cb       *callback
}

// callback is the provider's AlertStoreCallback: the real Silencer (as in app.setup)
// plus a record of what alert GC deleted.
type callback struct {
	mu      sync.Mutex
	inner   mem.AlertStoreCallback
	deleted []model.Fingerprint
	gcs     int
}

func (c *callback) PreStore(a *alert.Alert, existing bool) error { return c.inner.PreStore(a, existing) }
func (c *callback) PostStore(a *alert.Alert, existing bool)      { c.inner.PostStore(a, existing) }
func (c *callback) PostDelete(a *alert.Alert) {
	c.mu.Lock()
	c.deleted = append(c.deleted, a.Fingerprint())
	c.mu.Unlock()
	c.inner.PostDelete(a)
}

func (c *callback) PostGC(ff model.Fingerprints) {
	c.mu.Lock()
	c.gcs++
	c.mu.Unlock()
	c.inner.PostGC(ff)
}

// ConfigYAML is the configuration every instance runs with (route tree of the
// specification's Receivers definition, see spec/mc/MC_Alerts.tla).
func ConfigYAML(rt time.Duration) string {
	return fmt.Sprintf(`
global:
  resolve_timeout: %s
route:
  receiver: r0
  routes:
  - matchers: [ sev="p" ]
    receiver: r1
    continue: true
  - matchers: [ b="y" ]
    receiver: r2
receivers:
- name: r0
- name: r1
- name: r2
`, model.Duration(rt).String())
}

var compatOnce sync.Once

// New builds an instance.  Must be called inside a synctest bubble at hx.Epoch.
func New(o Options) (*Sys, error) {
	compatOnce.Do(func() {
		// as cmd/alertmanager does with no feature flags: UTF-8 label names are valid
		compat.InitFromFlags(promslog.NewNopLogger(), featurecontrol.NoopFlags{})
	})
	y := &Sys{O: o, Origin: time.Now().Add(o.Unit / 2), Reg: prometheus.NewRegistry()}
	logger := promslog.NewNopLogger()
	sil, err := silence.New(silence.Options{
		Retention:     1000 * time.Hour,
		Metrics:       y.Reg,
		Logger:        logger,
		EventRecorder: eventrecorder.NopRecorder(),
	})
	if err != nil {
		return nil, err
	}
	y.Sil = sil
	y.Silencer = silence.NewSilencer(sil, logger, eventrecorder.NopRecorder())
	y.cb = &callback{inner: y.Silencer}
	gc := time.Duration(o.GCPer) * o.Unit
	if o.GCPer <= 0 {
		gc = 100000 * time.Hour
	}
	y.Alerts, err = mem.NewAlerts(context.Background(), gc, o.Limit, y.cb, logger,
		eventrecorder.NopRecorder(), y.Reg, featurecontrol.NoopFlags{})
	if err != nil {
		return nil, err
	}
	cfg, err := config.Load(ConfigYAML(time.Duration(o.RT) * o.Unit))
	if err != nil {
		return nil, fmt.Errorf("config: %w", err)
	}
	setStatus := func(ctx context.Context, ls model.LabelSet) { y.Silencer.Mutes(ctx, ls) }
	groupMuted := func(routeID, groupKey string) ([]string, bool) { return nil, false }
	gf := o.GroupFunc
	if gf == nil {
		gf = func(context.Context, func(*dispatch.Route) bool, func(*alert.Alert, time.Time) bool) (dispatch.AlertGroups, map[model.Fingerprint][]string, error) {
			return dispatch.AlertGroups{}, map[model.Fingerprint][]string{}, nil
		}
	}
	if o.FullAPI {
		a, err := api.New(api.Options{
			Alerts:         y.Alerts,
			Silences:       sil,
			GroupMutedFunc: groupMuted,
			Concurrency:    o.Concurrency,
			Logger:         logger,
			Registry:       y.Reg,
			RequestDuration: prometheus.NewHistogramVec(prometheus.HistogramOpts{
				Name: "alertmanager_http_request_duration_seconds", Help: "x"},
				[]string{"handler", "method", "code"}),
			GroupFunc: gf,
		})
		if err != nil {
			return nil, err
		}
		a.Update(cfg, setStatus)
		rt := route.New()
		if o.ParkFunc != nil {
			rt.Get("/-/park", o.ParkFunc)
		}
		y.Handler = a.Register(rt, "/")
	} else {
		v2, err := apiv2.NewAPI(y.Alerts, gf, groupMuted, sil, nil, logger, y.Reg)
		if err != nil {
			return nil, err
		}
		v2.Update(cfg, setStatus)
		y.Handler = v2.Handler
	}
	return y, nil
}

// Close stops the provider's GC goroutine (required before the bubble ends).
func (y *Sys) Close() { y.Alerts.Close() }

// Now is the model time (floor) of the current virtual instant.
func (y *Sys) Now() int64 { return int64(time.Since(y.Origin) / y.O.Unit) }

// OnGrid tells whether the current instant is exactly a model instant.
func (y *Sys) OnGrid() bool { return time.Since(y.Origin)%y.O.Unit == 0 }

// T converts model time to a real instant.
func (y *Sys) T(u int64) time.Time { return y.Origin.Add(time.Duration(u) * y.O.Unit) }

// U converts a real instant to model time; ok is false off the grid.
func (y *Sys) U(t time.Time) (int64, bool) {
	d := t.Sub(y.Origin)
	return int64(d / y.O.Unit), d%y.O.Unit == 0
}

// Deleted returns (and forgets) the fingerprints alert GC deleted since the last call.
func (y *Sys) Deleted() []model.Fingerprint {
	y.cb.mu.Lock()
	defer y.cb.mu.Unlock()
	d := y.cb.deleted
	y.cb.deleted = nil
	return d
}

// Do serves one request in-process.
func (y *Sys) Do(method, path string, body any) *httptest.ResponseRecorder {
	var rd *bytes.Reader
	if body != nil {
		b, err := json.Marshal(body)
		if err != nil {
			panic(err)
		}
		rd = bytes.NewReader(b)
	} else {
		rd = bytes.NewReader(nil)
	}
	req := httptest.NewRequest(method, path, rd)
	if body != nil {
		req.Header.Set("Content-Type", "application/json")
	}
	w := httptest.NewRecorder()
	y.Handler.ServeHTTP(w, req)
	return w
}

// PostedAlert is one element of a POST /api/v2/alerts body.
type PostedAlert struct {
	Labels   map[string]string `json:"labels"`
	StartsAt *time.Time        `json:"startsAt,omitempty"`
	EndsAt   *time.Time        `json:"endsAt,omitempty"`
}

// GotAlert is the projection of one element of the GET /api/v2/alerts payload.
type GotAlert struct {
	Labels      map[string]string
	FP          string
	Start, End  time.Time
	Updated     time.Time
	State       string
	SilencedBy  []string
	InhibitedBy []string
	Receivers   []string
}

// GetAlerts serves GET /api/v2/alerts and decodes the payload.
func (y *Sys) GetAlerts() (int, []GotAlert, error) {
	w := y.Do("GET", "/api/v2/alerts", nil)
	if w.Code != 200 {
		return w.Code, nil, nil
	}
	var raw []struct {
		Labels      map[string]string `json:"labels"`
		Fingerprint string            `json:"fingerprint"`
		StartsAt    time.Time         `json:"startsAt"`
		EndsAt      time.Time         `json:"endsAt"`
		UpdatedAt   time.Time         `json:"updatedAt"`
		Receivers   []struct {
			Name string `json:"name"`
		} `json:"receivers"`
		Status struct {
			State       string   `json:"state"`
			SilencedBy  []string `json:"silencedBy"`
			InhibitedBy []string `json:"inhibitedBy"`
		} `json:"status"`
	}
	if err := json.Unmarshal(w.Body.Bytes(), &raw); err != nil {
		return w.Code, nil, fmt.Errorf("GET payload: %v: %s", err, w.Body.String())
	}
	out := make([]GotAlert, 0, len(raw))
	for _, r := range raw {
		g := GotAlert{Labels: r.Labels, FP: r.Fingerprint, Start: r.StartsAt, End: r.EndsAt, Updated: r.UpdatedAt,
			State: r.Status.State, SilencedBy: r.Status.SilencedBy, InhibitedBy: r.Status.InhibitedBy}
		for _, rc := range r.Receivers {
			g.Receivers = append(g.Receivers, rc.Name)
		}
		out = append(out, g)
	}
	return w.Code, out, nil
}

// LabelKey is a canonical rendering of a label set.
func LabelKey(ls map[string]string) string {
	ks := make([]string, 0, len(ls))
	for k := range ls {
		ks = append(ks, k)
	}
	sort.Strings(ks)
	var b bytes.Buffer
	for _, k := range ks {
		fmt.Fprintf(&b, "%q=%q,", k, ls[k])
	}
	return b.String()
}

// Counter reads a counter (sum over its label values) from the instance's registry.
func (y *Sys) Counter(name string) (float64, bool) {
	mfs, err := y.Reg.Gather()
	if err != nil {
		return 0, false
	}
	for _, mf := range mfs {
		if mf.GetName() != name {
			continue
		}
		var s float64
		for _, m := range mf.Metric {
			switch mf.GetType() {
			case dto.MetricType_COUNTER:
				s += m.GetCounter().GetValue()
			case dto.MetricType_GAUGE:
				s += m.GetGauge().GetValue()
			}
		}
		return s, true
	}
	return 0, false
}

var _ = hx.Epoch
