// Conformance harness for C13 (alert ingestion contract): replays behaviours generated
// by TLC from spec/Alerts.tla (Gen_Alerts) through the REAL in-process API: POST
// /api/v2/alerts, GET /api/v2/alerts, POST/DELETE silence, the provider's GC ticker under
// virtual time.  After every step the status code, the GET payload (label set, startsAt,
// endsAt, updatedAt, status, receivers), the stored alerts (provider.Get: start, end,
// timeout flag, updatedAt) and what GC deleted are compared with what TLC printed.
// Equal receive stamps are replayed as printed: a body that holds one label set several
// times is ONE request; two requests at one model instant are two calls without the
// virtual clock moving (Gen_Alerts PostDup / PostSame, Gen_AlertsDup).  Outcomes in which
// the earlier of two same-stamp submissions overwrote the later one are violations where
// the statement decides (class "stamp-order"), drift where it does not.
package c13

import (
	"flag"
	"testing"

	"verif/harness/hx"
)

var libFile = flag.String("lib", "", "library line (@@L) printed by Gen_Alerts")

func TestReplay(t *testing.T) {
	res := hx.NewResult()
	defer res.Write()
	lib, err := LoadLib(*libFile)
	if err != nil {
		t.Fatal(err)
	}
	ReplayFile(t, res, *hx.In, lib, Mode{})
}
