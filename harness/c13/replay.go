package c13

import (
	"bytes"
	"encoding/json"
	"fmt"
	"os"
	"sort"
	"strings"
	"testing"
	"testing/synctest"
	"time"

	"github.com/prometheus/common/model"

	"verif/harness/hx"
)

// ---------------------------------------------------------------- model values (JSON printed by TLC, spec/mc/Gen_Alerts.tla)

// Lib is the "@@L" line of Gen_Alerts: label sets, their canonical ids and constants.
type Lib struct {
	Labels map[string]map[string]string `json:"labels"`
	Canon  map[string]string            `json:"canon"`
	Name   map[string]string            `json:"name"`
	RT     int64                        `json:"rt"`
	Limit  int                          `json:"limit"`
	Stale  string                       `json:"stale"`

	canonIDs []string
	byKey    map[string]string            // LabelKey -> canonical id
	byFP     map[model.Fingerprint]string // fingerprint -> canonical id
	fpOf     map[string]model.Fingerprint
}

func LoadLib(path string) (*Lib, error) {
	b, err := os.ReadFile(path)
	if err != nil {
		return nil, err
	}
	l := &Lib{}
	if err := json.Unmarshal(b, l); err != nil {
		return nil, fmt.Errorf("library: %v", err)
	}
	l.byKey, l.byFP, l.fpOf = map[string]string{}, map[model.Fingerprint]string{}, map[string]model.Fingerprint{}
	for id, c := range l.Canon {
		if id != c {
			continue
		}
		l.canonIDs = append(l.canonIDs, id)
		ls := model.LabelSet{}
		for k, v := range l.Labels[id] {
			ls[model.LabelName(k)] = model.LabelValue(v)
		}
		l.byKey[LabelKey(l.Labels[id])] = id
		l.byFP[ls.Fingerprint()] = id
		l.fpOf[id] = ls.Fingerprint()
	}
	sort.Strings(l.canonIDs)
	return l, nil
}

const unset = -1

type Posted struct {
	Ls string `json:"ls"`
	S  int64  `json:"s"`
	E  int64  `json:"e"`
}

type Op struct {
	Op      string   `json:"op"`
	Batch   []Posted `json:"batch,omitempty"`
	Res     []string `json:"res,omitempty"`
	How     []string `json:"how,omitempty"` // path of Put per alert: new, replace, merge, sreplace, smerge (s = same stamp), invalid
	Code    int      `json:"code,omitempty"`
	D       int64    `json:"d,omitempty"`
	Deleted []string `json:"deleted,omitempty"`
	Dropped []string `json:"dropped,omitempty"`
	F4      []string `json:"f4,omitempty"`
}

type Rec struct {
	Start   int64 `json:"start"`
	End     int64 `json:"end"`
	Timeout bool  `json:"timeout"`
	Upd     int64 `json:"upd"`
}

// StMap is a TLC function id -> record (printed as [] when empty).
type StMap map[string]Rec

func (m *StMap) UnmarshalJSON(b []byte) error {
	*m = StMap{}
	if bytes.Equal(bytes.TrimSpace(b), []byte("[]")) {
		return nil
	}
	var x map[string]Rec
	if err := json.Unmarshal(b, &x); err != nil {
		return err
	}
	*m = x
	return nil
}

func (m StMap) equal(o StMap) bool {
	if len(m) != len(o) {
		return false
	}
	for k, v := range m {
		if w, ok := o[k]; !ok || v != w {
			return false
		}
	}
	return true
}

type Shown struct {
	FP    string   `json:"fp"`
	Start int64    `json:"start"`
	End   int64    `json:"end"`
	State string   `json:"state"`
	Rcv   []string `json:"rcv"`
}

type Alt struct {
	St  StMap    `json:"st"`
	Lim int      `json:"lim"`
	Res []string `json:"res"`
}

// Swap is an outcome in which, at equal stamps, an earlier submission overwrote a later
// one (Gen_Alerts!Swaps); Fixed: the statement forbids it (Alerts!OrderClauses).
type Swap struct {
	St    StMap    `json:"st"`
	Lim   int      `json:"lim"`
	Res   []string `json:"res"`
	Fixed bool     `json:"fixed"`
}

type Step struct {
	E     Op    `json:"e"`
	T     int64 `json:"t"`
	T0    int64 `json:"t0"` // model time before the step
	St    StMap `json:"st"`
	Lim   int   `json:"lim"`
	Gcper int64 `json:"gcper"`
	Vis   struct {
		Must []Shown `json:"must"`
		May  []Shown `json:"may"`
	} `json:"vis"`
	Alts    []Alt    `json:"alts"`
	Swaps   []Swap   `json:"swaps"`
	Over    []string `json:"over"`
	F4      []string `json:"f4"`
	Refused []int    `json:"refused"`
}

// Mode selects the observers of a replay.
type Mode struct {
	Limits bool // C18: evaluate the limit clauses on what the real code shows
}

func has(s []string, x string) bool {
	for _, y := range s {
		if y == x {
			return true
		}
	}
	return false
}

func sameSet(a, b []string) bool {
	x, y := append([]string{}, a...), append([]string{}, b...)
	sort.Strings(x)
	sort.Strings(y)
	return strings.Join(x, "\x00") == strings.Join(y, "\x00")
}

// state reads every alert of the library's label sets through provider.Get.
func (y *Sys) state(lib *Lib) (StMap, error) {
	out := StMap{}
	for _, id := range lib.canonIDs {
		a, err := y.Alerts.Get(lib.fpOf[id])
		if err != nil {
			continue // not found
		}
		s, ok1 := y.U(a.StartsAt)
		e, ok2 := y.U(a.EndsAt)
		u, ok3 := y.U(a.UpdatedAt)
		if !ok1 || !ok2 || !ok3 {
			return nil, fmt.Errorf("alert %s has times off the grid: %v %v %v", id, a.StartsAt, a.EndsAt, a.UpdatedAt)
		}
		out[id] = Rec{Start: s, End: e, Timeout: a.Timeout, Upd: u}
	}
	return out, nil
}

// ReplayFile replays every behaviour of the file `in` (JSON lines printed by TLC from
// Gen_Alerts) on a fresh real instance, one synctest bubble per behaviour.
func ReplayFile(t *testing.T, res *hx.Result, in string, lib *Lib, mode Mode) {
	unit := time.Minute
	err := hx.Lines(in, func(i int, line []byte) error {
		var h []Step
		if err := json.Unmarshal(line, &h); err != nil {
			return fmt.Errorf("line %d: %v", i, err)
		}
		if len(h) == 0 {
			return nil
		}
		res.Cases++
		res.Sample(line)
		nontrivial := false
		synctest.Test(t, func(t *testing.T) {
			y, err := New(Options{Unit: unit, RT: lib.RT, Limit: lib.Limit, GCPer: h[0].Gcper})
			if err != nil {
				t.Fatal(err)
			}
			defer y.Close()
			time.Sleep(unit / 2) // model time 0
			if h[0].T0 > 0 {
				time.Sleep(time.Duration(h[0].T0) * unit) // the behaviour starts at a later instant (Gen_AlertsDup)
			}
			curSil := ""
			prevF4 := []string{}
			for j, st := range h {
				res.Steps++
				bad := func(class, what string, want, got any) {
					res.Add(hx.Mismatch{Case: i, Step: j, What: what, Class: class, Want: want, Got: got, Replay: json.RawMessage(line)})
				}
				now := st.T
				var before map[string]bool // unexpired alerts shown before a POST
				limBefore, _ := y.Counter("alertmanager_alerts_limited_total")
				switch st.E.Op {
				case "post":
					if mode.Limits {
						_, got, err := y.GetAlerts()
						if err != nil {
							bad("harness", "GET before POST", nil, err.Error())
							return
						}
						before = map[string]bool{}
						for _, g := range got {
							if g.End.After(time.Now()) {
								before[lib.byKey[LabelKey(g.Labels)]] = true
							}
						}
					}
					body := make([]PostedAlert, 0, len(st.E.Batch))
					for _, p := range st.E.Batch {
						a := PostedAlert{Labels: lib.Labels[p.Ls]}
						if p.S != unset {
							x := y.T(p.S)
							a.StartsAt = &x
						}
						if p.E != unset {
							x := y.T(p.E)
							a.EndsAt = &x
						}
						body = append(body, a)
					}
					w := y.Do("POST", "/api/v2/alerts", body)
					res.Count("posts", 1)
					if w.Code != st.E.Code {
						bad("reply", "status of POST /api/v2/alerts", st.E.Code, fmt.Sprintf("%d %s", w.Code, strings.TrimSpace(w.Body.String())))
						return
					}
					valid := 0
					perSet := map[string]int{}
					for k, p := range st.E.Batch {
						if st.E.Res[k] == "invalid" {
							res.Count("invalid_alerts", 1)
							continue
						}
						valid++
						perSet[lib.Canon[p.Ls]]++
						if k < len(st.E.How) {
							switch st.E.How[k] {
							case "smerge":
								res.Count("same_stamp_merges", 1) // equal stamps, overlapping ranges: alert.Merge decides
								if len(st.E.Batch) == 1 {
									res.Count("same_instant_request_merges", 1)
								}
							case "sreplace":
								res.Count("same_stamp_replaces", 1) // equal stamps, disjoint ranges
							}
						}
						if len(lib.Labels[p.Ls]) != len(lib.Labels[lib.Canon[p.Ls]]) {
							res.Count("empty_valued_label_alerts", 1)
						}
					}
					if st.E.Code == 400 && valid > 0 {
						res.Count("mixed_batches", 1)
						nontrivial = true
					}
					for _, n := range perSet {
						if n > 1 {
							res.Count("bodies_with_duplicates", 1)
							break
						}
					}
					if len(st.Swaps) > 0 {
						res.Count("same_stamp_order_matters", 1) // the outcome depends on which of the two is taken as the younger
						for _, sw := range st.Swaps {
							if sw.Fixed {
								res.Count("same_stamp_order_decided_by_statement", 1)
								nontrivial = true
								break
							}
						}
					}
				case "tick", "tickgc":
					time.Sleep(unit)
					synctest.Wait()
					del := []string{}
					for _, fp := range y.Deleted() {
						del = append(del, lib.byFP[fp])
					}
					if !sameSet(del, st.E.Deleted) {
						bad("gc", "alerts deleted by the provider's GC between model instants", st.E.Deleted, del)
						return
					}
					if len(del) > 0 {
						res.Count("gc_deleted", len(del))
					}
					if len(st.E.F4) > 0 {
						res.Count("gc_dropped_bucket_with_unexpired_alert", 1)
					}
				case "silon":
					w := y.Do("POST", "/api/v2/silences", map[string]any{
						"matchers":  []map[string]any{{"name": "sev", "value": "p", "isRegex": false, "isEqual": true}},
						"startsAt":  time.Now(),
						"endsAt":    y.T(1000),
						"createdBy": "verif", "comment": "c13"})
					var r struct {
						SilenceID string `json:"silenceID"`
					}
					if w.Code != 200 || json.Unmarshal(w.Body.Bytes(), &r) != nil || r.SilenceID == "" {
						bad("harness", "POST /api/v2/silences", 200, fmt.Sprintf("%d %s", w.Code, w.Body.String()))
						return
					}
					curSil = r.SilenceID
				case "siloff":
					if w := y.Do("DELETE", "/api/v2/silence/"+curSil, nil); w.Code != 200 {
						bad("harness", "DELETE /api/v2/silence", 200, fmt.Sprintf("%d %s", w.Code, w.Body.String()))
						return
					}
				default:
					bad("harness", "unknown op "+st.E.Op, nil, nil)
					return
				}
				if y.Now() != now || !y.OnGrid() {
					bad("harness", "harness clock", now, y.Now())
					return
				}

				// stored alerts, read through provider.Get
				got, err := y.state(lib)
				if err != nil {
					bad("state", "stored alerts", st.St, err.Error())
					return
				}
				lim, _ := y.Counter("alertmanager_alerts_limited_total")
				if !got.equal(st.St) {
					for _, a := range st.Alts {
						if got.equal(a.St) && int(lim) == a.Lim {
							// differs from the code's reading only at a boundary instant: not judged
							res.Count("tie_drift", 1)
							return
						}
					}
					for _, sw := range st.Swaps {
						if !got.equal(sw.St) || int(lim) != sw.Lim {
							continue
						}
						if !sw.Fixed {
							// equal stamps, an outcome the statement leaves open: not judged
							res.Count("stamp_drift", 1)
							return
						}
						bad("stamp-order", "stored alerts after "+st.E.Op+": of two submissions of one label set with the same receive stamp the EARLIER one overwrote the later one", st.St, got)
						return
					}
					class := "state"
					if mode.Limits && st.E.Op == "post" {
						// which alerts were stored (updatedAt = now)?
						for k, p := range st.E.Batch {
							if st.E.Res[k] == "invalid" {
								continue
							}
							id := lib.Canon[p.Ls]
							r, ok := got[id]
							if (st.E.Res[k] == "ok") != (ok && r.Upd == now) {
								class = "admission"
							}
						}
					}
					bad(class, "stored alerts after "+st.E.Op, st.St, got)
					return
				}
				if st.E.Op == "post" {
					for k, p := range st.E.Batch {
						if st.E.Res[k] != "ok" {
							continue
						}
						last := true // (the last submission of its label set in the body)
						for k2 := k + 1; k2 < len(st.E.Batch); k2++ {
							if st.E.Res[k2] == "ok" && lib.Canon[st.E.Batch[k2].Ls] == lib.Canon[p.Ls] {
								last = false
							}
						}
						if !last {
							continue
						}
						r := st.St[lib.Canon[p.Ls]]
						d := Rec{Start: p.S, End: p.E}
						if p.S == unset {
							d.Start = now
							if p.E != unset {
								d.Start = p.E
							}
						}
						if p.E == unset {
							d.End = now + lib.RT
						}
						if r.Start != d.Start || r.End != d.End {
							res.Count("merged_posts", 1) // an earlier start or another end was kept
							nontrivial = true
						}
					}
				}
				if int(lim) != st.Lim {
					bad("counter", "alertmanager_alerts_limited_total", st.Lim, lim)
					return
				}

				// GET /api/v2/alerts
				code, list, err := y.GetAlerts()
				if err != nil || code != 200 {
					bad("visible", "GET /api/v2/alerts", 200, fmt.Sprintf("%d %v", code, err))
					return
				}
				want := map[string]Shown{}
				must := map[string]bool{}
				for _, s := range st.Vis.Must {
					want[s.FP] = s
					must[s.FP] = true
				}
				for _, s := range st.Vis.May {
					want[s.FP] = s
				}
				seen := map[string]bool{}
				perName := map[string]int{}
				for _, g := range list {
					id, known := lib.byKey[LabelKey(g.Labels)]
					if !known {
						bad("visible", "GET lists an alert with a label set that was never accepted", nil, g.Labels)
						return
					}
					w, ok := want[id]
					if !ok {
						bad("visible", "GET lists alert "+id+" whose end has passed or that is not stored", st.Vis, fmt.Sprintf("%+v", g))
						return
					}
					if seen[id] {
						bad("visible", "GET lists alert "+id+" twice", nil, nil)
						return
					}
					seen[id] = true
					s, ok1 := y.U(g.Start)
					e, ok2 := y.U(g.End)
					u, ok3 := y.U(g.Updated)
					if !ok1 || !ok2 || !ok3 || s != w.Start || e != w.End || u != st.St[id].Upd {
						bad("visible", "times of alert "+id+" in GET", fmt.Sprintf("start %d end %d updated %d", w.Start, w.End, st.St[id].Upd),
							fmt.Sprintf("start %v end %v updated %v", g.Start.Sub(y.Origin), g.End.Sub(y.Origin), g.Updated.Sub(y.Origin)))
						return
					}
					if strings.Join(g.Receivers, ",") != strings.Join(w.Rcv, ",") {
						bad("visible", "receivers of alert "+id+" in GET", w.Rcv, g.Receivers)
						return
					}
					okState := g.State == w.State || (w.State == "either" && (g.State == "active" || g.State == "suppressed"))
					if okState && g.State == "suppressed" && !(len(g.SilencedBy) == 1 && g.SilencedBy[0] == curSil) {
						okState = false
					}
					if okState && g.State == "active" && len(g.SilencedBy) != 0 {
						okState = false
					}
					if !okState || len(g.InhibitedBy) != 0 {
						bad("visible", "status of alert "+id+" in GET", w.State, fmt.Sprintf("%s silencedBy=%v inhibitedBy=%v", g.State, g.SilencedBy, g.InhibitedBy))
						return
					}
					if g.State == "suppressed" {
						res.Count("suppressed_shown", 1)
					}
					if g.End.After(time.Now()) {
						perName[lib.Name[id]]++
					}
				}
				for id := range must {
					if !seen[id] {
						bad("visible", "GET does not list alert "+id+" whose end has not passed", st.Vis, fmt.Sprintf("%d alerts listed", len(list)))
						return
					}
				}
				res.Count("gets", 1)
				res.Count("alerts_shown", len(list))

				// C18: the limit clauses evaluated on what the real code shows
				if mode.Limits && lib.Limit > 0 {
					if st.E.Op == "post" {
						refused := 0
						for k, p := range st.E.Batch {
							if st.E.Res[k] == "invalid" {
								continue
							}
							id := lib.Canon[p.Ls]
							r, ok := got[id]
							accepted := ok && r.Upd == now
							if !accepted {
								refused++
								res.Count("refusals", 1)
								nontrivial = true
							}
							if before[id] {
								res.Count("resends_of_unexpired", 1)
								if !accepted {
									predicted := false
									for _, x := range st.Refused {
										if x == k+1 {
											predicted = true
										}
									}
									if predicted && has(prevF4, lib.Name[id]) {
										res.Count("F4_resend_refused", 1)
										if res.Counters["F4_resend_refused"] == 1 {
											res.Add(hx.Mismatch{Case: i, Step: j, Class: "F4", What: "re-send of the admitted unexpired alert " + id + " refused after its bucket was dropped at GC",
												Want: "accepted", Got: "refused (limited)", Replay: json.RawMessage(line)})
										}
									} else {
										bad("resend", "re-send of the admitted unexpired alert "+id+" was refused", "accepted", "refused")
										return
									}
								}
							}
						}
						if int(lim-limBefore) != refused {
							bad("counter", "refusals not reported by alertmanager_alerts_limited_total", refused, lim-limBefore)
							return
						}
					}
					for name, n := range perName {
						if n <= lib.Limit {
							continue
						}
						if has(st.Over, name) && has(st.F4, name) {
							res.Count("F4_over_limit", 1)
							if res.Counters["F4_over_limit"] == 1 {
								res.Add(hx.Mismatch{Case: i, Step: j, Class: "F4", What: fmt.Sprintf("%d unexpired alerts of name %q shown under limit %d after the name's bucket was dropped at GC while an admitted alert had not expired", n, name, lib.Limit),
									Want: lib.Limit, Got: n, Replay: json.RawMessage(line)})
							}
							nontrivial = true
							continue
						}
						bad("overlimit", fmt.Sprintf("%d unexpired alerts of name %q shown under limit %d", n, name, lib.Limit), lib.Limit, n)
						return
					}
					for _, name := range st.Over {
						if perName[name] <= lib.Limit {
							res.Count("gap_not_reproduced", 1)
						}
					}
				}
				prevF4 = st.F4
			}
		})
		if nontrivial {
			res.Nontrivial++
		}
		return nil
	})
	if err != nil {
		t.Fatal(err)
	}
}
