package c13

import (
	"encoding/json"
	"flag"
	"sync"
	"testing"
	"time"

	"verif/harness/hx"
)

var (
	concPar    = flag.Int("par", 4, "TestConc: histories run side by side (each on its own provider)")
	concBudget = flag.Duration("budget", 10*time.Second, "TestConc: stop starting histories after this long")
)

// TestConc records -n concurrent histories (see conc.go) into -trace (ndjson, one "end"
// event closes each history) and runs the quiescence oracle on each.
func TestConc(t *testing.T) {
	res := hx.NewResult()
	defer res.Write()
	tw, err := hx.NewTraceWriter(*hx.Trace)
	if err != nil {
		t.Fatal(err)
	}
	defer tw.Close()
	t0 := time.Now()
	var mu sync.Mutex
	var wg sync.WaitGroup
	nextRun := 0
	for p := 0; p < *concPar; p++ {
		api, err := NewConcAPI()
		if err != nil {
			t.Fatal(err)
		}
		wg.Add(1)
		go func() {
			defer wg.Done()
			for {
				mu.Lock()
				if nextRun >= *hx.N || time.Since(t0) > *concBudget || res.Counters["harness_trouble"] > 0 {
					mu.Unlock()
					return
				}
				nextRun++
				run := nextRun
				mu.Unlock()
				st := RunConcHistory(api, run, *hx.Seed)
				mu.Lock()
				if st.Harness != "" {
					res.Counters["harness_trouble"]++
					res.Add(hx.Mismatch{Case: run, What: st.Harness, Class: "harness"})
					mu.Unlock()
					return
				}
				res.Cases++
				res.Steps += st.Events
				res.Counters["ops"] += st.Ops
				b2i := func(b bool) int {
					if b {
						return 1
					}
					return 0
				}
				res.Counters["overlapping_puts_of_one_label_set"] += b2i(st.OverlapSameLs)
				res.Counters["put_blocked_on_full_channel"] += b2i(st.BlockedPut)
				res.Counters["overlap_and_blocked"] += b2i(st.OverlapSameLs && st.BlockedPut)
				res.Counters["put_overlapping_subscribe"] += b2i(st.PutVsSub)
				res.Counters["gc_deleted"] += st.GCDeleted
				res.Counters["merged_versions_received"] += st.Merged
				if st.OverlapSameLs || st.BlockedPut || st.PutVsSub {
					res.Nontrivial++
				}
				for _, l := range st.Lines {
					tw.Emit(json.RawMessage(l))
				}
				if len(st.Oracle) > 0 {
					hist := make([]json.RawMessage, len(st.Lines))
					for i, l := range st.Lines {
						hist[i] = l
					}
					rp, _ := json.Marshal(hist)
					res.Counters["oracle_failures"]++
					res.Add(hx.Mismatch{Case: run, What: st.Oracle[0], Got: st.Oracle, Class: "oracle", Replay: rp})
				}
				if len(res.Samples) < 2 && st.OverlapSameLs && st.BlockedPut {
					hist := make([]json.RawMessage, len(st.Lines))
					for i, l := range st.Lines {
						hist[i] = l
					}
					rp, _ := json.Marshal(hist)
					res.Samples = append(res.Samples, rp)
				}
				mu.Unlock()
			}
		}()
	}
	wg.Wait()
	res.Counters["wall_ms"] = int(time.Since(t0) / time.Millisecond)
}
