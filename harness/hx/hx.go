// Package hx holds what every conformance harness shares: JSON-lines I/O, the
// result file read by /verif/bin/check, and the virtual-time helpers.
package hx

import (
	"bufio"
	"encoding/json"
	"flag"
	"fmt"
	"os"
	"sync"
	"time"
)

var (
	In    = flag.String("in", "", "input file (TLC behaviours, one JSON value per line)")
	Out   = flag.String("out", "", "result file (JSON)")
	Trace = flag.String("trace", "", "trace output file (ndjson)")
	Seed  = flag.Int64("seed", 1, "seed of random drivers")
	N     = flag.Int("n", 100, "number of random scenarios")
	Limit = flag.Int("limit", 0, "replay at most this many input lines (0 = all)")
	Depth = flag.Int("depth", 30, "length of random scenarios")
)

// Epoch is the instant at which every synctest bubble starts.
var Epoch = time.Date(2000, 1, 1, 0, 0, 0, 0, time.UTC)

// Mismatch is one disagreement between the specification's expectation and what the
// real code did.
type Mismatch struct {
	Case   int             `json:"case"`
	Step   int             `json:"step"`
	What   string          `json:"what"`
	Want   any             `json:"want,omitempty"`
	Got    any             `json:"got,omitempty"`
	Class  string          `json:"class,omitempty"` // signature used to match known findings
	Replay json.RawMessage `json:"replay,omitempty"`
}

// Result is written by a harness run and read by bin/check.
type Result struct {
	mu          sync.Mutex
	Cases       int               `json:"cases"`
	Steps       int               `json:"steps"`
	Nontrivial  int               `json:"nontrivial"`
	Counters    map[string]int    `json:"counters"`
	Mismatches  []Mismatch        `json:"mismatches"`
	NMismatches int               `json:"n_mismatches"`
	Samples     []json.RawMessage `json:"samples"`
	Notes       []string          `json:"notes,omitempty"`
}

func NewResult() *Result {
	return &Result{Counters: map[string]int{}, Mismatches: []Mismatch{}, Samples: []json.RawMessage{}}
}

func (r *Result) Count(k string, n int) {
	r.mu.Lock()
	r.Counters[k] += n
	r.mu.Unlock()
}

func (r *Result) Add(m Mismatch) {
	r.mu.Lock()
	r.NMismatches++
	if len(r.Mismatches) < 50 {
		r.Mismatches = append(r.Mismatches, m)
	}
	r.mu.Unlock()
}

func (r *Result) Sample(b []byte) {
	r.mu.Lock()
	if len(r.Samples) < 3 {
		r.Samples = append(r.Samples, json.RawMessage(append([]byte(nil), b...)))
	}
	r.mu.Unlock()
}

func (r *Result) Write() error {
	if *Out == "" {
		return nil
	}
	b, err := json.MarshalIndent(r, "", " ")
	if err != nil {
		return err
	}
	return os.WriteFile(*Out, b, 0o644)
}

// Lines calls f for every non-empty line of path (lines may be long).
func Lines(path string, f func(i int, line []byte) error) error {
	fh, err := os.Open(path)
	if err != nil {
		return err
	}
	defer fh.Close()
	br := bufio.NewReaderSize(fh, 1<<20)
	i := 0
	for {
		line, err := br.ReadBytes('\n')
		if len(line) > 1 {
			if *Limit > 0 && i >= *Limit {
				return nil
			}
			if e := f(i, line); e != nil {
				return e
			}
			i++
		}
		if err != nil {
			return nil
		}
	}
}

// TraceWriter writes ndjson events.
type TraceWriter struct {
	mu sync.Mutex
	f  *os.File
	w  *bufio.Writer
	n  int
}

func NewTraceWriter(path string) (*TraceWriter, error) {
	f, err := os.Create(path)
	if err != nil {
		return nil, err
	}
	return &TraceWriter{f: f, w: bufio.NewWriterSize(f, 1<<20)}, nil
}

func (t *TraceWriter) Emit(ev any) {
	b, err := json.Marshal(ev)
	if err != nil {
		panic(fmt.Sprintf("trace marshal: %v", err))
	}
	t.mu.Lock()
	t.w.Write(b)
	t.w.WriteByte('\n')
	t.n++
	t.mu.Unlock()
}

func (t *TraceWriter) Len() int { return t.n }

func (t *TraceWriter) Close() error {
	t.w.Flush()
	return t.f.Close()
}

// SinceEpoch is the virtual time since the start of the bubble.
func SinceEpoch() time.Duration { return time.Since(Epoch) }

// J marshals v (for replay artefacts).
func J(v any) json.RawMessage {
	b, _ := json.Marshal(v)
	return b
}
