// Concurrent-history stage of C10: several goroutines call Log, Merge, Query, GC and
// MarshalBinary/Snapshot on ONE real nflog.Log at the same time (real goroutines, real
// clock, no synctest).  Every operation is recorded with a global atomic counter taken
// just before the call and just after the return; spec/mc/Trace_NflogConc.tla decides
// whether SOME placement of the linearization points of spec/NflogConc.tla explains every
// recorded reply.  A cheap direct oracle (the C10 statement at quiescence) is evaluated
// after every round.
//
// Time.  nflog.Log reads time.Now() itself (there is no clock option), so the harness
// makes the outcome of every time comparison inside a round independent of the instant at
// which the code happens to read the clock:
//   - "expired" entries have an expiry that has passed (with a margin) before the round
//     starts; "live" entries expire 20 minutes or more after it;
//   - remote timestamps lie at least 1 ms before the round or 5 minutes after it;
//   - the timestamp of a local Log is whatever the code read: it is taken from the
//     entry the code broadcast (a Log that broadcast nothing only tells that the held
//     entry was newer than the clock value read before the call).
//
// All instants of a round are then replaced by their ranks (TLC integers are 32 bit).
package c10

import (
	"bytes"
	"encoding/binary"
	"flag"
	"fmt"
	"math/rand"
	"runtime"
	"sort"
	"sync"
	"sync/atomic"
	"testing"
	"time"

	"github.com/prometheus/client_golang/prometheus"
	"google.golang.org/protobuf/proto"
	"google.golang.org/protobuf/types/known/timestamppb"

	"github.com/prometheus/alertmanager/cluster"
	"github.com/prometheus/alertmanager/nflog"
	pb "github.com/prometheus/alertmanager/nflog/nflogpb"

	"verif/harness/hx"
)

var (
	concFiller = flag.Int("filler", 300, "live filler entries of every log (they lengthen the critical sections)")
	concRenew  = flag.Int("renew", 40, "rounds after which a new log is used")
	concWindow = flag.Int("window", 12000, "largest start delay (ns) of the operation that races a GC")
)

const (
	concRetention = time.Hour
	nsMinute      = int64(time.Minute)
)

var cbase int64 // wall clock (ns) at the start of the test: all instants are relative to it

func wns() int64 { return time.Now().UnixNano() - cbase }

func cmesh(e entry) *pb.MeshEntry {
	gk, r := splitKey(e.K)
	m := meshEntry(entry{K: e.K, F: e.F, R: e.R, D: e.D}, time.Nanosecond)
	m.Entry.Receiver, m.Entry.GroupKey = r, []byte(gk)
	m.Entry.Timestamp = timestamppb.New(time.Unix(0, cbase+e.Ts))
	m.ExpiresAt = timestamppb.New(time.Unix(0, cbase+e.Exp))
	return m
}

func cfromEntry(e *pb.Entry) entry {
	r := e.Receiver
	out := entry{
		K:  fmt.Sprintf("%s:%s/%s/%d", e.GroupKey, r.GroupName, r.Integration, r.Idx),
		Ts: e.Timestamp.AsTime().UnixNano() - cbase,
		F:  append([]uint64{}, e.FiringAlerts...),
		R:  append([]uint64{}, e.ResolvedAlerts...),
		D:  dataOf(e),
	}
	return out
}

func cfromMesh(m *pb.MeshEntry) entry {
	e := cfromEntry(m.Entry)
	e.Exp = m.ExpiresAt.AsTime().UnixNano() - cbase
	return e
}

func cencode(b []entry) []byte {
	var buf bytes.Buffer
	for _, e := range b {
		mb, err := proto.Marshal(cmesh(e))
		if err != nil {
			panic(err)
		}
		buf.Write(binary.AppendUvarint(nil, uint64(len(mb))))
		buf.Write(mb)
	}
	return buf.Bytes()
}

// projectKeys decodes the entries of a marshalled state whose key carries the round's
// marker (the filler and the leftovers of earlier rounds are skipped undecoded).
func projectKeys(b, marker []byte) ([]entry, error) {
	out := []entry{}
	seen := map[string]bool{}
	for len(b) > 0 {
		n, w := binary.Uvarint(b)
		if w <= 0 || uint64(len(b)-w) < n {
			return nil, fmt.Errorf("marshalled state: bad framing")
		}
		msg := b[w : w+int(n)]
		b = b[w+int(n):]
		if !bytes.Contains(msg, marker) {
			continue
		}
		var me pb.MeshEntry
		if err := proto.Unmarshal(msg, &me); err != nil {
			return nil, err
		}
		e := cfromMesh(&me)
		if seen[e.K] {
			return nil, fmt.Errorf("key %s twice in marshalled state", e.K)
		}
		seen[e.K] = true
		out = append(out, e)
	}
	sort.Slice(out, func(i, j int) bool { return out[i].K < out[j].K })
	return out, nil
}

type bcRec struct {
	p *byte
	b []byte
}

type bcaster struct {
	mu   sync.Mutex
	recs []bcRec
}

func (x *bcaster) on(b []byte) {
	x.mu.Lock()
	x.recs = append(x.recs, bcRec{&b[0], b})
	x.mu.Unlock()
}

func (x *bcaster) take() []bcRec {
	x.mu.Lock()
	r := x.recs
	x.recs = nil
	x.mu.Unlock()
	return r
}

func newConcLog(filler int) (*nflog.Log, *bcaster, error) {
	l, err := nflog.New(nflog.Options{Retention: concRetention, Metrics: prometheus.NewRegistry()})
	if err != nil {
		return nil, nil, err
	}
	now := wns()
	var fs []entry
	for i := 0; i < filler; i++ {
		fs = append(fs, entry{K: fmt.Sprintf("fill%d:r/webhook/0", i), Ts: now - 60*nsMinute, Exp: now + 24*60*nsMinute, F: []uint64{1}, D: "none"})
	}
	if len(fs) > 0 {
		if err := l.Merge(cencode(fs)); err != nil {
			return nil, nil, err
		}
	}
	bc := &bcaster{}
	l.SetBroadcast(bc.on)
	return l, bc, nil
}

// cop is one operation of a round: what is called and what came back.
type cop struct {
	G, ID int
	Op    string // log merge gc query snap
	Ki    int
	P     payload
	X     time.Duration
	B     []entry
	viaW  bool // snap through Snapshot(w) instead of MarshalBinary
	delay int64

	recv  *pb.Receiver
	gk    string
	store *nflog.Store
	raw   []byte

	C, R   uint64 // global counter before the call / after the return
	Tc, Tr int64  // wall clock before / after (bounds of the clock value a Log read)
	Sent   int
	N      int
	Found  bool
	Ent    entry
	Snap   []entry
	err    error
	qres   []*pb.Entry
	sbytes []byte
}

func spin(ns int64) {
	if ns <= 0 {
		return
	}
	t := time.Now()
	for int64(time.Since(t)) < ns {
	}
}

func (o *cop) run(l *nflog.Log, ctr *atomic.Uint64) {
	spin(o.delay)
	o.Tc = wns()
	o.C = ctr.Add(1)
	switch o.Op {
	case "log":
		o.err = l.Log(o.recv, o.gk, o.P.F, o.P.R, o.store, o.X)
	case "merge":
		o.err = l.Merge(o.raw)
	case "gc":
		o.N, o.err = l.GC()
	case "query":
		o.qres, o.err = l.Query(nflog.QReceiver(o.recv), nflog.QGroupKey(o.gk))
	case "snap":
		if o.viaW {
			var buf bytes.Buffer
			_, o.err = l.Snapshot(&buf)
			o.sbytes = buf.Bytes()
		} else {
			o.sbytes, o.err = l.MarshalBinary()
		}
	}
	o.R = ctr.Add(1)
	o.Tr = wns()
}

func overlap(a, b *cop) bool { return a.C < b.R && b.C < a.R }

type ranker struct {
	vals []int64
	idx  map[int64]int64
}

func (r *ranker) add(v ...int64) { r.vals = append(r.vals, v...) }
func (r *ranker) build() {
	sort.Slice(r.vals, func(i, j int) bool { return r.vals[i] < r.vals[j] })
	r.idx = map[int64]int64{}
	n := int64(0)
	for i, v := range r.vals {
		if i == 0 || v != r.vals[i-1] {
			n++
			r.idx[v] = n
		}
	}
}
func (r *ranker) of(v int64) int64 { return r.idx[v] }

func nz(s []uint64) []uint64 {
	if s == nil {
		return []uint64{}
	}
	return s
}

// TestConc runs -n rounds and writes the histories to -trace.
func TestConc(t *testing.T) {
	res := hx.NewResult()
	defer res.Write()
	tw, err := hx.NewTraceWriter(*hx.Trace)
	if err != nil {
		t.Fatal(err)
	}
	defer tw.Close()
	rng := rand.New(rand.NewSource(*hx.Seed))
	cbase = time.Now().UnixNano()
	var ctr atomic.Uint64
	var l *nflog.Log
	var bc *bcaster
	datas := []string{"none", "int", "str", "float"}
	started := time.Now()
	var busy time.Duration

	for round := 0; round < *hx.N; round++ {
		if round%*concRenew == 0 {
			if l, bc, err = newConcLog(*concFiller); err != nil {
				t.Fatal(err)
			}
		}
		marker := []byte(fmt.Sprintf("#%d_", round))
		nk := 2 + rng.Intn(2)
		keys := make([]string, nk)
		for i := range keys {
			keys[i] = fmt.Sprintf("#%d_%d:r/webhook/%d", round, i, i)
		}
		recvOf := func(ki int) (*pb.Receiver, string) { gk, r := splitKey(keys[ki]); return r, gk }
		bad := func(what string, got any, replay any) {
			res.Add(hx.Mismatch{Case: round, What: what, Got: got, Replay: hx.J(replay)})
		}
		trouble := func(what string) { res.Count("trouble:"+what, 1) }

		// ---- setup (sequential, not part of the history): what the keys hold when the round starts
		kinds := make([]string, nk)
		for i := range kinds {
			switch c := rng.Intn(100); {
			case c < 55:
				kinds[i] = "expired"
			case c < 70:
				kinds[i] = "absent"
			case c < 90:
				kinds[i] = "old"
			default:
				kinds[i] = "future"
			}
		}
		if rng.Intn(100) < 80 {
			kinds[rng.Intn(nk)] = "expired"
		}
		setupEnt := make([]*entry, nk)
		delta := int64(60_000)
		var maxExp int64
		for try := 0; try < 4; try++ {
			t0 := wns()
			var batch []entry
			for i, kd := range kinds {
				if setupEnt[i] != nil {
					continue
				}
				e := entry{K: keys[i], F: []uint64{uint64(100 + i)}, R: []uint64{}, D: datas[rng.Intn(4)]}
				switch kd {
				case "expired":
					e.Ts, e.Exp = t0-nsMinute-int64(i), t0+delta
				case "old":
					e.Ts, e.Exp = t0-nsMinute-int64(i), t0+20*nsMinute
				case "future":
					e.Ts, e.Exp = t0+10*nsMinute+int64(i), t0+50*nsMinute
				default:
					continue
				}
				batch = append(batch, e)
			}
			if len(batch) == 0 {
				break
			}
			if err := l.Merge(cencode(batch)); err != nil {
				t.Fatal(err)
			}
			missing := false
			for _, e := range batch {
				ki := 0
				for i := range keys {
					if keys[i] == e.K {
						ki = i
					}
				}
				r, gk := recvOf(ki)
				es, qerr := l.Query(nflog.QReceiver(r), nflog.QGroupKey(gk))
				if qerr == nil && len(es) == 1 && es[0].Timestamp.AsTime().UnixNano()-cbase == e.Ts {
					ee := e
					setupEnt[ki] = &ee
					if kinds[ki] == "expired" && e.Exp > maxExp {
						maxExp = e.Exp
					}
				} else {
					missing = true // the merge came after the short expiry: refused
				}
			}
			if !missing {
				break
			}
			res.Count("setup_retries", 1)
			delta *= 4
		}
		for i := range kinds {
			if setupEnt[i] == nil {
				kinds[i] = "absent"
			}
		}
		bc.take()
		for wns() <= maxExp+20_000 { // every "expired" entry has expired, with a margin
		}
		R := wns()
		init := []entry{}
		var expiredKeys []int
		for i, e := range setupEnt {
			if e != nil {
				init = append(init, *e)
			}
			if kinds[i] == "expired" {
				expiredKeys = append(expiredKeys, i)
			}
		}

		// ---- operations of the round
		var ops []*cop
		var pool []entry // remote entries that may be delivered again
		pool = append(pool, init...)
		newOp := func(g int, op string) *cop {
			o := &cop{G: g, ID: len(ops) + 1, Op: op}
			ops = append(ops, o)
			return o
		}
		genLog := func(g, ki int) *cop {
			o := newOp(g, "log")
			o.Ki = ki
			o.P = payload{F: []uint64{uint64(o.ID)}, R: []uint64{}, D: datas[rng.Intn(4)]}
			if rng.Intn(3) == 0 {
				o.P.F = append(o.P.F, 77)
			}
			if rng.Intn(3) == 0 {
				o.P.R = []uint64{uint64(1 + rng.Intn(2))}
			}
			o.X = []time.Duration{0, 0, 30 * time.Minute, 2 * time.Hour}[rng.Intn(4)]
			o.recv, o.gk = recvOf(ki)
			o.store = dataStore(o.P.D)
			return o
		}
		genMerge := func(g, first int) *cop {
			o := newOp(g, "merge")
			n := 1 + rng.Intn(nk)
			perm := rng.Perm(nk)
			if first >= 0 {
				for i, p := range perm {
					if p == first {
						perm[0], perm[i] = perm[i], perm[0]
					}
				}
			}
			used := map[string]bool{}
			for j := 0; j < n; j++ {
				ki := perm[j]
				tag := int64(o.ID*10 + j)
				e := entry{K: keys[ki], F: []uint64{uint64(o.ID), uint64(200 + j)}, R: []uint64{}, D: datas[rng.Intn(4)]}
				c := rng.Intn(100)
				if first >= 0 && j == 0 {
					c = rng.Intn(45) // the raced key gets an entry that is accepted
				}
				switch {
				case c < 45: // logged by a peer just before the round
					e.Ts, e.Exp = R-int64(time.Millisecond)-tag*1000, R+25*nsMinute
				case c < 55: // stale
					e.Ts, e.Exp = R-2*nsMinute-tag*1000, R+22*nsMinute
				case c < 65: // from a peer whose clock is ahead
					e.Ts, e.Exp = R+5*nsMinute+tag*1000, R+45*nsMinute
				case c < 75: // expired on arrival
					e.Ts, e.Exp = R-3*nsMinute-tag*1000, R-int64(time.Second)
				default: // a second delivery of something sent before
					cand := pool[:0:0]
					for _, p := range pool {
						if !used[p.K] {
							cand = append(cand, p)
						}
					}
					if len(cand) == 0 {
						e.Ts, e.Exp = R-int64(time.Millisecond)-tag*1000, R+25*nsMinute
					} else {
						e = cand[rng.Intn(len(cand))]
					}
				}
				if used[e.K] {
					continue
				}
				if len(e.F) == 2 && e.F[0] == uint64(o.ID) && rng.Intn(100) < 7 {
					e.D = "big" // a fresh entry that makes the message oversized
				}
				used[e.K] = true
				o.B = append(o.B, e)
			}
			for _, e := range o.B {
				pool = append(pool, e)
			}
			o.raw = cencode(o.B)
			return o
		}
		genAny := func(g int) *cop {
			ki := rng.Intn(nk)
			if len(expiredKeys) > 0 && rng.Intn(2) == 0 {
				ki = expiredKeys[rng.Intn(len(expiredKeys))]
			}
			switch c := rng.Intn(100); {
			case c < 30:
				return genLog(g, ki)
			case c < 55:
				return genMerge(g, -1)
			case c < 73:
				return newOp(g, "gc")
			case c < 93:
				o := newOp(g, "query")
				o.Ki = ki
				o.recv, o.gk = recvOf(ki)
				return o
			default:
				o := newOp(g, "snap")
				o.viaW = rng.Intn(2) == 0
				return o
			}
		}
		G := 3 + rng.Intn(2)
		per := make([][]*cop, G+1)
		shaped := rng.Intn(100) < 75
		for g := 1; g <= G; g++ {
			n := 2 + rng.Intn(3)
			for i := 0; i < n; i++ {
				var o *cop
				switch {
				case shaped && i == 0 && g == 1:
					o = newOp(g, "gc")
				case shaped && i == 0 && g == 2 && len(expiredKeys) > 0:
					ki := expiredKeys[rng.Intn(len(expiredKeys))]
					if rng.Intn(100) < 60 {
						o = genLog(g, ki)
					} else {
						o = genMerge(g, ki)
					}
					o.delay = rng.Int63n(int64(*concWindow) + 1)
				case shaped && i == 0 && g == 3 && rng.Intn(100) < 50:
					o = newOp(g, "gc") // two collections at once
					o.delay = rng.Int63n(int64(*concWindow)/2 + 1)
				default:
					o = genAny(g)
					o.delay = []int64{0, 0, 300, 1000, 3000, 8000}[rng.Intn(6)]
				}
				per[g] = append(per[g], o)
			}
		}

		// ---- the concurrent part
		var ready, start atomic.Int32
		var wg sync.WaitGroup
		t1 := time.Now()
		rT1 := wns()
		for g := 1; g <= G; g++ {
			wg.Add(1)
			go func(mine []*cop) {
				defer wg.Done()
				ready.Add(1)
				for start.Load() == 0 {
					runtime.Gosched() // the coordinator may share this P
				}
				for _, o := range mine {
					o.run(l, &ctr)
				}
			}(per[g])
		}
		for int(ready.Load()) < G {
			runtime.Gosched()
		}
		start.Store(1)
		wg.Wait()
		nConc := len(ops)
		// quiescence: the coordinator (thread 0) queries every key, collects, and reads the state
		for ki := range keys {
			o := newOp(0, "query")
			o.Ki = ki
			o.recv, o.gk = recvOf(ki)
			o.run(l, &ctr)
		}
		newOp(0, "gc").run(l, &ctr)
		fb, ferr := l.MarshalBinary()
		rend := wns()
		monoD := time.Since(t1)
		busy += monoD
		if ferr != nil {
			t.Fatal(ferr)
		}
		final, perr := projectKeys(fb, marker)
		if perr != nil {
			bad("marshalled state unreadable", perr.Error(), nil)
			continue
		}
		finalQ := map[string]*entry{}
		for ki := range keys {
			r, gk := recvOf(ki)
			es, qerr := l.Query(nflog.QReceiver(r), nflog.QGroupKey(gk))
			if qerr == nil && len(es) == 1 {
				e := cfromEntry(es[0])
				finalQ[keys[ki]] = &e
			} else if qerr != nflog.ErrNotFound {
				bad("query at quiescence", fmt.Sprint(qerr, len(es)), nil)
			}
		}

		// ---- replies
		okRound := true
		for _, o := range ops {
			if o.err != nil && !(o.Op == "query" && o.err == nflog.ErrNotFound) {
				bad("error from "+o.Op, o.err.Error(), nil)
				okRound = false
			}
			switch o.Op {
			case "query":
				o.Found = o.err == nil && len(o.qres) == 1
				if o.err == nil && len(o.qres) != 1 {
					bad("query returned several entries", len(o.qres), nil)
					okRound = false
				}
				if o.Found {
					o.Ent = cfromEntry(o.qres[0])
				}
			case "snap":
				if o.Snap, perr = projectKeys(o.sbytes, marker); perr != nil {
					bad("snapshot unreadable", perr.Error(), nil)
					okRound = false
				}
			}
		}
		for _, b := range bc.take() {
			var owner *cop
			for _, o := range ops {
				if o.Op == "merge" && &o.raw[0] == b.p {
					owner = o
				}
			}
			if owner == nil {
				n, w := binary.Uvarint(b.b)
				var me pb.MeshEntry
				if w > 0 && int(n) == len(b.b)-w && proto.Unmarshal(b.b[w:], &me) == nil && len(me.Entry.FiringAlerts) > 0 {
					id := int(me.Entry.FiringAlerts[0])
					if id >= 1 && id <= len(ops) && ops[id-1].Op == "log" && ops[id-1].Sent == 0 {
						owner = ops[id-1]
						owner.Ent = cfromMesh(&me)
					}
				}
			}
			if owner == nil {
				bad("broadcast that no call of the round explains", fmt.Sprintf("%d bytes", len(b.b)), nil)
				okRound = false
				continue
			}
			owner.Sent++
		}

		// ---- the time discipline held?
		if rend-R > nsMinute {
			trouble("round too long")
			okRound = false
		}
		if d := (rend - rT1) - int64(monoD); d > int64(time.Millisecond) || d < -int64(time.Millisecond) {
			trouble("wall clock stepped")
			okRound = false
		}
		for _, o := range ops {
			if o.Op != "log" {
				continue
			}
			if o.Sent == 0 {
				o.Ent = entry{K: keys[o.Ki], Ts: o.Tc, Exp: o.Tc, F: o.P.F, R: o.P.R, D: o.P.D}
				continue
			}
			want := concRetention
			if o.X > 0 && concRetention > o.X {
				want = o.X
			}
			if o.Ent.Ts < o.Tc || o.Ent.Ts > o.Tr {
				trouble("clock not monotone across the call")
				okRound = false
			}
			pw := entry{K: keys[o.Ki], Ts: o.Ent.Ts, Exp: o.Ent.Ts + int64(want), F: o.P.F, R: o.P.R, D: o.P.D}
			if !eqEntry(pw, o.Ent) {
				bad("Log broadcast an entry other than the one it was given", o.Ent, pw)
				okRound = false
			}
		}
		if !okRound {
			res.Count("discarded", 1)
			continue
		}

		// ---- history (instants as ranks, keys as k0..)
		var rk ranker
		rk.add(R)
		addE := func(es ...entry) {
			for _, e := range es {
				rk.add(e.Ts)
				if e.Exp != 0 {
					rk.add(e.Exp)
				}
			}
		}
		addE(init...)
		addE(final...)
		for _, o := range ops {
			addE(o.B...)
			addE(o.Snap...)
			if o.Op == "log" || o.Found {
				addE(o.Ent)
			}
		}
		rk.build()
		kname := map[string]string{}
		for i, k := range keys {
			kname[k] = fmt.Sprintf("k%d", i)
		}
		je := func(e entry) map[string]any {
			exp := int64(0)
			if e.Exp != 0 {
				exp = rk.of(e.Exp)
			}
			return map[string]any{"k": kname[e.K], "ts": rk.of(e.Ts), "exp": exp, "f": nz(norm(e.F)), "r": nz(norm(e.R)), "d": e.D}
		}
		jes := func(es []entry) []any {
			out := []any{}
			for _, e := range es {
				out = append(out, je(e))
			}
			return out
		}
		type sev struct {
			stamp uint64
			m     map[string]any
		}
		var evs []sev
		for _, o := range ops {
			m := map[string]any{"run": round, "e": "call", "g": o.G, "at": o.ID, "op": o.Op}
			switch o.Op {
			case "log":
				m["k"] = kname[keys[o.Ki]]
				m["p"] = map[string]any{"f": nz(norm(o.P.F)), "r": nz(norm(o.P.R)), "d": o.P.D}
				m["x"] = int64(o.X / time.Minute)
				m["ent"] = je(o.Ent)
				m["sent"] = o.Sent
			case "merge":
				m["b"] = jes(o.B)
				m["sent"] = o.Sent
				big := false
				for _, e := range o.B {
					big = big || e.D == "big"
				}
				if big != cluster.OversizedMessage(o.raw) {
					t.Fatalf("harness: batch size class")
				}
			case "gc":
				m["n"] = o.N
			case "query":
				m["k"] = kname[keys[o.Ki]]
				m["found"] = o.Found
				if o.Found {
					m["ent"] = je(o.Ent)
				}
			case "snap":
				m["st"] = jes(o.Snap)
			}
			evs = append(evs, sev{o.C, m}, sev{o.R, map[string]any{"run": round, "e": "ret", "g": o.G, "at": o.ID}})
		}
		sort.Slice(evs, func(i, j int) bool { return evs[i].stamp < evs[j].stamp })
		hist := []map[string]any{{"run": round, "e": "reset", "now": rk.of(R), "st": jes(init), "keys": keys}}
		for _, e := range evs {
			hist = append(hist, e.m)
		}
		hist = append(hist, map[string]any{"run": round, "e": "quiesce", "st": jes(final)})

		// ---- direct oracle: the C10 statement at quiescence
		for ki, k := range keys {
			var w []entry // everything logged here or received for k
			if setupEnt[ki] != nil {
				w = append(w, *setupEnt[ki])
			}
			for _, o := range ops {
				if o.Op == "log" && o.Ki == ki && o.Sent > 0 {
					w = append(w, o.Ent)
				}
				for _, e := range o.B {
					if o.Op == "merge" && e.K == k {
						w = append(w, e)
					}
				}
			}
			var held *entry
			for i := range final {
				if final[i].K == k {
					held = &final[i]
				}
			}
			q := finalQ[k]
			if (q == nil) != (held == nil) || (q != nil && !eqEntry(entry{K: k, Ts: q.Ts, Exp: held.Exp, F: q.F, R: q.R, D: q.D}, *held)) {
				bad("Query and the marshalled state disagree at quiescence", map[string]any{"key": k, "query": q, "state": held}, hist)
			}
			if held != nil && held.Exp <= R {
				bad("an expired entry survived a garbage collection that ran after its expiry", map[string]any{"key": k, "held": held}, hist)
			}
			if len(w) == 0 {
				if held != nil {
					bad("the log holds an entry nobody logged or sent", held, hist)
				}
				continue
			}
			top := w[0]
			for _, e := range w {
				if e.Ts > top.Ts {
					top = e
				}
			}
			if top.Exp <= rend+nsMinute {
				continue // the newest entry has expired: the statement demands nothing
			}
			okc := false
			for _, e := range w {
				if held != nil && eqEntry(e, *held) && e.Ts == top.Ts {
					okc = true
				}
			}
			if !okc {
				bad("the newest unexpired entry logged or received is not held at quiescence (Query: "+
					map[bool]string{true: "not found", false: "another entry"}[q == nil]+")",
					map[string]any{"key": k, "newest": top, "held": held, "expiry_in_minutes": (top.Exp - rend) / nsMinute}, hist)
			}
		}

		// ---- which windows were exercised
		conc := ops[:nConc]
		hit := false
		for _, a := range conc {
			for _, b := range conc {
				if a == b || !overlap(a, b) {
					continue
				}
				switch {
				case b.Op == "gc" && (a.Op == "log" || a.Op == "merge"):
					for _, ki := range expiredKeys {
						if (a.Op == "log" && a.Ki == ki) || (a.Op == "merge" && hasKey(a.B, keys[ki])) {
							hit = true
							res.Count("ops_writing_expired_key_during_gc", 1)
							if b.N > 0 && a.C < b.C {
								res.Count("ops_writing_expired_key_called_before_overlapping_gc", 1)
							}
						}
					}
				case a.Op == "merge" && b.Op == "log" && hasKey(a.B, keys[b.Ki]):
					res.Count("merge_overlaps_log_of_same_key", 1)
				case a.Op == "query" && b.Op == "log" && a.Ki == b.Ki:
					res.Count("query_overlaps_log_of_same_key", 1)
				case a.Op == "gc" && b.Op == "gc" && a.ID < b.ID:
					res.Count("gc_overlaps_gc", 1)
				case a.Op == "log" && b.Op == "log" && a.Ki == b.Ki && a.ID < b.ID:
					res.Count("log_overlaps_log_of_same_key", 1)
				case a.Op == "snap" && (b.Op == "log" || b.Op == "merge" || b.Op == "gc"):
					res.Count("snapshot_overlaps_write", 1)
				}
			}
		}
		for _, o := range ops {
			if o.Op == "log" && o.Sent == 0 {
				res.Count("log_noop_newer_held", 1)
			}
		}
		if hit {
			res.Nontrivial++
		}
		res.Cases++
		res.Steps += len(ops)
		for _, m := range hist {
			tw.Emit(m)
		}
		if res.Cases <= 2 {
			res.Sample(hx.J(hist))
		}
	}
	res.Count("wall_ms", int(time.Since(started)/time.Millisecond))
	res.Count("concurrent_part_ms", int(busy/time.Millisecond))
}

func hasKey(b []entry, k string) bool {
	for _, e := range b {
		if e.K == k {
			return true
		}
	}
	return false
}
