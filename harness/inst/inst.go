//go:build verif

// Package inst assembles one Alertmanager instance from the real constructors in the
// order of app.setup (silences, silencer, notification log, provider with the silencer as
// callback, group marker, api.New + Register) and configures it through the REAL
// app.reloader.reload (export file added with go -overlay). Receivers' notifiers are
// replaced by scripted stubs through the verif hook in reload. Everything runs inside a
// testing/synctest bubble: no sockets, no wall clock.
package inst

import (
	"bytes"
	"context"
	"encoding/json"
	"fmt"
	"io"
	"net/http"
	"net/http/httptest"
	"sort"
	"strings"
	"sync"
	"time"

	"github.com/prometheus/client_golang/prometheus"
	"github.com/prometheus/common/model"
	"github.com/prometheus/common/promslog"
	"github.com/prometheus/common/route"

	"github.com/prometheus/alertmanager/alert"
	"github.com/prometheus/alertmanager/api"
	"github.com/prometheus/alertmanager/app"
	"github.com/prometheus/alertmanager/config"
	"github.com/prometheus/alertmanager/dispatch"
	"github.com/prometheus/alertmanager/eventrecorder"
	"github.com/prometheus/alertmanager/featurecontrol"
	"github.com/prometheus/alertmanager/marker"
	"github.com/prometheus/alertmanager/nflog"
	"github.com/prometheus/alertmanager/nflog/nflogpb"
	"github.com/prometheus/alertmanager/notify"
	"github.com/prometheus/alertmanager/provider/mem"
	"github.com/prometheus/alertmanager/silence"

	"verif/harness/hx"
)

// Ms is the virtual time in milliseconds since the start of the bubble.
func Ms() int64 { return int64(time.Since(hx.Epoch) / time.Millisecond) }

func msOf(t time.Time) int64 {
	if t.IsZero() {
		return -1
	}
	return int64(t.Sub(hx.Epoch) / time.Millisecond)
}

// ---------------------------------------------------------------- events

// AlertObs is an alert as seen in a flush or a notification.
type AlertObs struct {
	L      string `json:"l"`      // canonical label string
	Status string `json:"status"` // firing | resolved
	Start  int64  `json:"start"`
	End    int64  `json:"end"` // -1: no end (firing alerts are frozen without end)
	Upd    int64  `json:"upd"`
}

// Event is one line of the recorded trace.
type Event struct {
	Inst string `json:"inst"`
	Seq  int    `json:"seq"`
	T    int64  `json:"t"`
	Ev   string `json:"ev"`
	// flush / attempt / log
	Gk       string     `json:"gk,omitempty"`
	Ag       string     `json:"ag,omitempty"` // aggregation group id (uuid in the group's context)
	Route    string     `json:"route,omitempty"`
	Recv     string     `json:"recv,omitempty"`
	Integ    string     `json:"integ,omitempty"`
	Alerts   []AlertObs `json:"alerts,omitempty"`
	Outcome  string     `json:"outcome,omitempty"`
	Deadline int64      `json:"deadline,omitempty"`
	TickNow  int64      `json:"ticknow,omitempty"`
	Start    int64      `json:"st,omitempty"` // attempt: instant at which the delivery started
	Firing   []string   `json:"firing,omitempty"`
	Resolved []string   `json:"resolved,omitempty"`
	Found    bool       `json:"found,omitempty"`
	EntryTs  int64      `json:"entryts,omitempty"`
	Expiry   int64      `json:"expiry,omitempty"`
	Err      string     `json:"err,omitempty"`
	// generic payload of environment events
	Data any `json:"data,omitempty"`
}

// Log collects events of all instances of a scenario in one total order.
type Log struct {
	mu  sync.Mutex
	seq int
	Ev  []Event
}

func (l *Log) Add(e Event) {
	l.mu.Lock()
	l.seq++
	e.Seq = l.seq
	e.T = Ms()
	l.Ev = append(l.Ev, e)
	l.mu.Unlock()
}

func lstr(ls model.LabelSet) string {
	names := make([]string, 0, len(ls))
	for n := range ls {
		names = append(names, string(n))
	}
	sort.Strings(names)
	var sb strings.Builder
	for i, n := range names {
		if i > 0 {
			sb.WriteByte(',')
		}
		sb.WriteString(n + "=" + string(ls[model.LabelName(n)]))
	}
	return sb.String()
}

func obs(alerts []*alert.Alert) []AlertObs {
	out := make([]AlertObs, 0, len(alerts))
	for _, a := range alerts {
		st := "firing"
		if a.Resolved() {
			st = "resolved"
		}
		out = append(out, AlertObs{L: lstr(a.Labels), Status: st, Start: msOf(a.StartsAt), End: msOf(a.EndsAt), Upd: msOf(a.UpdatedAt)})
	}
	sort.Slice(out, func(i, j int) bool { return out[i].L < out[j].L })
	return out
}

// ---------------------------------------------------------------- scripted receivers

// Window says how an integration answers delivery attempts that START in [From, To).
type Window struct {
	Recv  string `json:"recv"`
	Integ string `json:"integ"` // integration name, e.g. "webhook/0", "email/0"
	From  int64  `json:"from"`
	To    int64  `json:"to"`
	Kind  string `json:"kind"` // rec | unrec | hang | slow (delivery takes SlowMs, then succeeds)
}

// SlowMs is how long a delivery takes inside a "slow" window.
const SlowMs = 2000

type stub struct {
	in    *Instance
	recv  string
	name  string
	idx   int
	glidx int // index among all integrations of the receiver
}

func (s *stub) Notify(ctx context.Context, alerts ...*alert.Alert) (bool, error) {
	now := Ms()
	kind := "ok"
	me := fmt.Sprintf("%s/%d", s.name, s.idx)
	for _, w := range s.in.Windows {
		if w.Recv == s.recv && w.Integ == me && w.From <= now && now < w.To {
			kind = w.Kind
		}
	}
	if kind == "slow" {
		// the delivery takes a while and then succeeds (or is cut by the flush context)
		select {
		case <-time.After(SlowMs * time.Millisecond):
			kind = "ok"
		case <-ctx.Done():
			gk, _ := notify.GroupKey(ctx)
			agid, _ := notify.AggrGroupID(ctx)
			s.in.Log.Add(Event{Inst: s.in.Name, Ev: "hangend", Gk: gk, Ag: agid, Recv: s.recv, Integ: me})
			return true, ctx.Err()
		}
	}
	gk, _ := notify.GroupKey(ctx)
	agid, _ := notify.AggrGroupID(ctx)
	dl := int64(-1)
	if d, ok := ctx.Deadline(); ok {
		dl = msOf(d)
	}
	ev := Event{Inst: s.in.Name, Ev: "attempt", Start: now, Gk: gk, Ag: agid, Recv: s.recv, Integ: fmt.Sprintf("%s/%d", s.name, s.idx), Alerts: obs(alerts), Outcome: kind, Deadline: dl}
	s.in.Log.Add(ev)
	// a delivery takes time: with a clock that only moves when everybody sleeps, two flushes of
	// one group could otherwise write the notification log at the same nanosecond, and the
	// log keeps the first of two entries with equal timestamps
	select {
	case <-time.After(time.Millisecond):
	case <-ctx.Done():
	}
	switch kind {
	case "ok":
		return false, nil
	case "rec":
		return true, fmt.Errorf("scripted recoverable failure")
	case "unrec":
		return false, fmt.Errorf("scripted unrecoverable failure")
	case "hang":
		<-ctx.Done()
		s.in.Log.Add(Event{Inst: s.in.Name, Ev: "hangend", Gk: gk, Ag: agid, Recv: s.recv, Integ: fmt.Sprintf("%s/%d", s.name, s.idx)})
		return true, ctx.Err()
	}
	return false, fmt.Errorf("bad script kind %q", kind)
}

// ---------------------------------------------------------------- recording notification log

type recNflog struct {
	in *Instance
	l  *nflog.Log
}

func (r *recNflog) Log(recv *nflogpb.Receiver, gkey string, firing, resolved []uint64, store *nflog.Store, expiry time.Duration) error {
	err := r.l.Log(recv, gkey, firing, resolved, store, expiry)
	e := Event{Inst: r.in.Name, Ev: "nflog.log", Gk: gkey, Recv: recv.GroupName, Integ: fmt.Sprintf("%s/%d", recv.Integration, recv.Idx),
		Firing: hashes(firing), Resolved: hashes(resolved), Expiry: int64(expiry / time.Millisecond)}
	if err != nil {
		e.Err = err.Error()
	}
	r.in.Log.Add(e)
	return err
}

func (r *recNflog) Query(params ...nflog.QueryParam) ([]*nflogpb.Entry, error) {
	es, err := r.l.Query(params...)
	return es, err
}

func hashes(h []uint64) []string {
	out := make([]string, len(h))
	for i, x := range h {
		out[i] = fmt.Sprintf("%x", x)
	}
	sort.Strings(out)
	return out
}

// ---------------------------------------------------------------- instance

type Options struct {
	Name                string
	Retention           time.Duration // data retention (silences, nflog)
	AlertGCInterval     time.Duration
	PerAlertLimit       int
	MaintenanceInterval time.Duration // dispatcher maintenance
	StartDelay          time.Duration // dispatch start delay
	Position            func() int    // cluster position of this instance
	PeerTimeout         time.Duration
	NflogGCInterval     time.Duration // notification-log maintenance (GC only; no snapshot file)
	SilSnapshot         []byte // state to start from (restart)
	NflogSnapshot       []byte
	Log                 *Log
	Windows             []Window
}

type Instance struct {
	Name     string
	Opts     Options
	Log      *Log
	Windows  []Window
	Reg      *prometheus.Registry
	Silences *silence.Silences
	Silencer *silence.Silencer
	Nflog    *nflog.Log
	Alerts   *mem.Alerts
	Marker   marker.GroupMarker
	API      *api.API
	Mux      http.Handler
	R        *app.VerifReloader
	stopped  bool
	stopc    chan struct{}
	maintWG  sync.WaitGroup
}

var hookMu sync.Mutex

// New builds the instance; call Reload with a configuration before use.
func New(o Options) (*Instance, error) {
	in := &Instance{Name: o.Name, Opts: o, Log: o.Log, Windows: o.Windows, Reg: prometheus.NewRegistry()}
	logger := promslog.NewNopLogger()
	ff := featurecontrol.NoopFlags{}

	nlo := nflog.Options{Retention: o.Retention, Metrics: in.Reg}
	if o.NflogSnapshot != nil {
		nlo.SnapshotReader = bytes.NewReader(o.NflogSnapshot)
	}
	nl, err := nflog.New(nlo)
	if err != nil {
		return nil, fmt.Errorf("nflog: %w", err)
	}
	in.Nflog = nl
	if o.NflogGCInterval > 0 {
		in.stopc = make(chan struct{})
		in.maintWG.Add(1)
		go func() {
			defer in.maintWG.Done()
			nl.Maintenance(o.NflogGCInterval, "", in.stopc, nil)
		}()
	}
	in.Marker = marker.NewGroupMarker()

	so := silence.Options{Retention: o.Retention, Metrics: in.Reg, EventRecorder: eventrecorder.NopRecorder()}
	if o.SilSnapshot != nil {
		so.SnapshotReader = bytes.NewReader(o.SilSnapshot)
	}
	sil, err := silence.New(so)
	if err != nil {
		return nil, fmt.Errorf("silences: %w", err)
	}
	in.Silences = sil
	in.Silencer = silence.NewSilencer(sil, logger, eventrecorder.NopRecorder())

	alerts, err := mem.NewAlerts(context.Background(), o.AlertGCInterval, o.PerAlertLimit, in.Silencer, logger, eventrecorder.NopRecorder(), in.Reg, ff)
	if err != nil {
		return nil, err
	}
	in.Alerts = alerts

	groupFn := func(ctx context.Context, rf func(*dispatch.Route) bool, af func(*alert.Alert, time.Time) bool) (dispatch.AlertGroups, map[model.Fingerprint][]string, error) {
		return in.R.Groups(ctx, rf, af)
	}
	apih, err := api.New(api.Options{
		Alerts:         alerts,
		Silences:       sil,
		GroupMutedFunc: in.Marker.Muted,
		Logger:         logger,
		Registry:       in.Reg,
		RequestDuration: prometheus.NewHistogramVec(prometheus.HistogramOpts{Name: "verif_http_request_duration_seconds", Help: "x"},
			[]string{"handler", "method", "code"}),
		GroupFunc: groupFn,
	})
	if err != nil {
		return nil, err
	}
	in.API = apih
	in.Mux = apih.Register(route.New(), "/")

	// the two closures of app.setup, restated (trusted: 7 lines)
	wait := func() time.Duration { return 0 }
	if o.Position != nil {
		wait = func() time.Duration { return time.Duration(o.Position()) * o.PeerTimeout }
	}
	timeout := func(d time.Duration) time.Duration {
		if d < notify.MinTimeout {
			d = notify.MinTimeout
		}
		return d + wait()
	}

	in.R = app.NewVerifReloader(app.VerifDeps{
		Alerts: alerts, API: apih, GroupMarker: in.Marker, Logger: logger,
		NotificationLog: &recNflog{in: in, l: nl}, Silencer: in.Silencer, Registry: in.Reg, Flags: ff,
		Wait: wait, Timeout: timeout, StartTime: time.Now(), StartDelay: o.StartDelay,
		MaintenanceInterval: o.MaintenanceInterval, Retention: o.Retention,
	})
	return in, nil
}

// Reload loads the YAML with the real config loader and applies it with the real reload().
func (in *Instance) Reload(yaml string) error {
	conf, err := config.Load(yaml)
	if err != nil {
		return err
	}
	hookMu.Lock()
	defer hookMu.Unlock()
	app.VerifIntegrations = func(recv string, ins []notify.Integration) []notify.Integration {
		out := make([]notify.Integration, len(ins))
		for i := range ins {
			it := &ins[i]
			st := &stub{in: in, recv: recv, name: it.Name(), idx: it.Index(), glidx: i}
			out[i] = notify.NewIntegration(st, it, it.Name(), it.Index(), recv)
		}
		return out
	}
	defer func() { app.VerifIntegrations = nil }()
	return in.R.Reload(conf)
}

// Stop stops dispatcher, inhibitor and provider (all goroutines must exit before the
// bubble ends).
func (in *Instance) Stop() {
	if in.stopped {
		return
	}
	in.stopped = true
	in.R.Stop()
	in.Alerts.Close()
	if in.stopc != nil {
		close(in.stopc)
		in.maintWG.Wait()
	}
}

// Snapshots returns what a maintenance snapshot would write.
func (in *Instance) Snapshots() (sil, nfl []byte) {
	var a, b bytes.Buffer
	in.Silences.Snapshot(&a)
	in.Nflog.Snapshot(&b)
	return a.Bytes(), b.Bytes()
}

// ---------------------------------------------------------------- API client (in process)

func (in *Instance) do(method, path string, body any) (int, []byte) {
	var rd io.Reader
	if body != nil {
		b, _ := json.Marshal(body)
		rd = bytes.NewReader(b)
	}
	req := httptest.NewRequest(method, path, rd)
	req.Header.Set("Content-Type", "application/json")
	rec := httptest.NewRecorder()
	in.Mux.ServeHTTP(rec, req)
	return rec.Code, rec.Body.Bytes()
}

// PostAlert is the JSON of one postable alert; zero Start/End mean "absent".
type PostAlert struct {
	Labels      map[string]string `json:"labels"`
	Annotations map[string]string `json:"annotations,omitempty"`
	StartsAt    *time.Time        `json:"startsAt,omitempty"`
	EndsAt      *time.Time        `json:"endsAt,omitempty"`
}

func (in *Instance) PostAlerts(as []PostAlert) int {
	code, _ := in.do("POST", "/api/v2/alerts", as)
	return code
}

func (in *Instance) Get(path string, into any) int {
	code, b := in.do("GET", path, nil)
	if into != nil && code == 200 {
		if err := json.Unmarshal(b, into); err != nil {
			panic(fmt.Sprintf("GET %s: %v: %s", path, err, b))
		}
	}
	return code
}

func (in *Instance) PostSilence(body map[string]any) (int, string) {
	code, b := in.do("POST", "/api/v2/silences", body)
	var r struct {
		SilenceID string `json:"silenceID"`
	}
	json.Unmarshal(b, &r)
	return code, r.SilenceID
}

func (in *Instance) DeleteSilence(id string) int {
	code, _ := in.do("DELETE", "/api/v2/silence/"+id, nil)
	return code
}
