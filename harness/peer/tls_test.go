//go:build verif

// TLS gossip transport for the real-peer harness (cluster.tls-config): a throw-away CA and one
// server+client certificate for 127.0.0.1 generated at run time, the tls-config file in a
// temporary directory, and a small TCP forwarder in front of every TLS peer's advertised
// address whose established connections the harness can reset (fault "connection reset"
// between two members that both keep running).
package peer

import (
	"crypto/ecdsa"
	"crypto/elliptic"
	"crypto/rand"
	"crypto/x509"
	"crypto/x509/pkix"
	"encoding/pem"
	"fmt"
	"io"
	"math/big"
	"net"
	"os"
	"path/filepath"
	"sync"
	"time"

	"github.com/prometheus/alertmanager/cluster"
)

var (
	tlsOnce sync.Once
	tlsDir  string
	tlsFile string
	tlsErr  error
)

func writePEM(path, typ string, der []byte) error {
	return os.WriteFile(path, pem.EncodeToMemory(&pem.Block{Type: typ, Bytes: der}), 0o600)
}

// tlsConfig returns the TLSTransportConfig read by the repository's own loader from a
// freshly written tls-config file (mutual TLS, one CA).
func tlsConfig() (*cluster.TLSTransportConfig, error) {
	tlsOnce.Do(func() {
		tlsDir, tlsErr = os.MkdirTemp("", "verif-peer-tls")
		if tlsErr != nil {
			return
		}
		caKey, err := ecdsa.GenerateKey(elliptic.P256(), rand.Reader)
		if err != nil {
			tlsErr = err
			return
		}
		caT := &x509.Certificate{SerialNumber: big.NewInt(1), Subject: pkix.Name{CommonName: "verif throw-away CA"},
			NotBefore: time.Now().Add(-time.Hour), NotAfter: time.Now().Add(24 * time.Hour), IsCA: true, BasicConstraintsValid: true,
			KeyUsage: x509.KeyUsageCertSign | x509.KeyUsageDigitalSignature}
		caDER, err := x509.CreateCertificate(rand.Reader, caT, caT, &caKey.PublicKey, caKey)
		if err != nil {
			tlsErr = err
			return
		}
		caCert, _ := x509.ParseCertificate(caDER)
		key, err := ecdsa.GenerateKey(elliptic.P256(), rand.Reader)
		if err != nil {
			tlsErr = err
			return
		}
		t := &x509.Certificate{SerialNumber: big.NewInt(2), Subject: pkix.Name{CommonName: "verif peer"},
			NotBefore: time.Now().Add(-time.Hour), NotAfter: time.Now().Add(24 * time.Hour),
			KeyUsage: x509.KeyUsageDigitalSignature, ExtKeyUsage: []x509.ExtKeyUsage{x509.ExtKeyUsageServerAuth, x509.ExtKeyUsageClientAuth},
			IPAddresses: []net.IP{net.IPv4(127, 0, 0, 1)}, DNSNames: []string{"localhost"}}
		der, err := x509.CreateCertificate(rand.Reader, t, caCert, &key.PublicKey, caKey)
		if err != nil {
			tlsErr = err
			return
		}
		kb, err := x509.MarshalECPrivateKey(key)
		if err != nil {
			tlsErr = err
			return
		}
		for _, e := range []error{
			writePEM(filepath.Join(tlsDir, "ca.pem"), "CERTIFICATE", caDER),
			writePEM(filepath.Join(tlsDir, "node.pem"), "CERTIFICATE", der),
			writePEM(filepath.Join(tlsDir, "node-key.pem"), "EC PRIVATE KEY", kb),
		} {
			if e != nil {
				tlsErr = e
				return
			}
		}
		tlsFile = filepath.Join(tlsDir, "tls_config.yml")
		tlsErr = os.WriteFile(tlsFile, []byte(`tls_server_config:
  cert_file: "node.pem"
  key_file: "node-key.pem"
  client_ca_file: "ca.pem"
  client_auth_type: "RequireAndVerifyClientCert"
tls_client_config:
  cert_file: "node.pem"
  key_file: "node-key.pem"
  ca_file: "ca.pem"
`), 0o600)
	})
	if tlsErr != nil {
		return nil, tlsErr
	}
	return cluster.GetTLSTransportConfig(tlsFile)
}

func tlsCleanup() {
	if tlsDir != "" {
		os.RemoveAll(tlsDir)
	}
}

// forwarder relays TCP connections accepted on its own port to target.
type forwarder struct {
	ln     net.Listener
	mu     sync.Mutex
	target string
	down   bool
	conns  []*net.TCPConn
	resets int
}

func newForwarder() (*forwarder, error) {
	ln, err := net.Listen("tcp", "127.0.0.1:0")
	if err != nil {
		return nil, err
	}
	f := &forwarder{ln: ln, down: true}
	go f.run()
	return f, nil
}

func (f *forwarder) addr() string { return f.ln.Addr().String() }

func (f *forwarder) run() {
	for {
		c, err := f.ln.Accept()
		if err != nil {
			return
		}
		f.mu.Lock()
		target, down := f.target, f.down
		f.mu.Unlock()
		if down {
			abort(c.(*net.TCPConn)) // nobody listens on the advertised address
			continue
		}
		d, err := net.DialTimeout("tcp", target, 2*time.Second)
		if err != nil {
			abort(c.(*net.TCPConn))
			continue
		}
		cc, dd := c.(*net.TCPConn), d.(*net.TCPConn)
		f.mu.Lock()
		f.conns = append(f.conns, cc, dd)
		f.mu.Unlock()
		go func() { io.Copy(dd, cc); dd.CloseWrite() }()
		go func() { io.Copy(cc, dd); cc.CloseWrite() }()
	}
}

func abort(c *net.TCPConn) {
	c.SetLinger(0) // RST
	c.Close()
}

// point directs new connections to target ("" = the peer is down).
func (f *forwarder) point(target string) {
	f.mu.Lock()
	f.target, f.down = target, target == ""
	f.mu.Unlock()
}

// reset aborts every connection established through the forwarder (both legs get a RST)
// and returns how many there were.
func (f *forwarder) reset() int {
	f.mu.Lock()
	cs := f.conns
	f.conns = nil
	f.resets++
	f.mu.Unlock()
	for _, c := range cs {
		abort(c)
	}
	return len(cs) / 2
}

func (f *forwarder) close() {
	f.ln.Close()
	f.reset()
}

func freePort() (int, error) {
	ln, err := net.Listen("tcp", "127.0.0.1:0")
	if err != nil {
		return 0, err
	}
	defer ln.Close()
	return ln.Addr().(*net.TCPAddr).Port, nil
}

func hostPort(port int) string { return fmt.Sprintf("127.0.0.1:%d", port) }
