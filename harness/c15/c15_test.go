// Conformance harness for C15 (time intervals; mute/active gating).
//
// Direction A (TestReplay): every line TLC prints from spec/mc/Gen_TimeIntervals.tla is
//   - kind "ti": an interval specification + location + instants with the offset the
//     spec's zone rule gives and the verdict the statement of C15 demands.  The
//     specification is rendered as YAML or JSON, parsed by the REAL unmarshalers of
//     timeinterval.TimeInterval, and the real ContainsTime (directly and through the real
//     Intervener.Mutes) is compared with the verdict at every instant;
//   - kind "gate": named intervals + a route's mute/active names + instants with the
//     verdict of the gating rule.  A complete configuration is rendered, loaded by the
//     real config.Load, the intervener built as app/reloader.go does, and the real
//     TimeActiveStage -> TimeMuteStage (composed as notify.PipelineBuilder.New does) are
//     executed on a real GroupMarker.
//
// Direction B (TestRecord): for every IANA zone the Go side records (zone, interval,
// instant, offset Go reports, verdict of the real code) at seeded sampled instants
// (zone transitions +-1 min, month edges, random); spec/mc/Trace_TimeIntervals.tla
// validates every verdict with the logged offset.
package c15

import (
	"archive/zip"
	"bytes"
	"context"
	"encoding/json"
	"fmt"
	"io/fs"
	"log/slog"
	"math/rand"
	"os"
	"path/filepath"
	"sort"
	"strings"
	"testing"
	"time"
	_ "time/tzdata" // fallback when neither the system nor GOROOT has a zone database

	"github.com/prometheus/client_golang/prometheus"
	"github.com/prometheus/common/model"
	"gopkg.in/yaml.v2"

	"github.com/prometheus/alertmanager/alert"
	"github.com/prometheus/alertmanager/config"
	"github.com/prometheus/alertmanager/featurecontrol"
	"github.com/prometheus/alertmanager/marker"
	"github.com/prometheus/alertmanager/notify"
	"github.com/prometheus/alertmanager/timeinterval"

	"verif/harness/hx"
)

// ---------------------------------------------------------------- model values

type rng struct {
	B int `json:"b"`
	E int `json:"e"`
}

type tiSpec struct {
	Times    []rng  `json:"times"`
	Weekdays []rng  `json:"weekdays"`
	Dom      []rng  `json:"dom"`
	Months   []rng  `json:"months"`
	Years    []rng  `json:"years"`
	Loc      string `json:"loc"`
}

// tcase = [t (unix minutes), offset (minutes east), verdict]
type tcase struct {
	T   int64
	Off int
	V   bool
}

func (c *tcase) UnmarshalJSON(b []byte) error {
	var a []json.RawMessage
	if err := json.Unmarshal(b, &a); err != nil || len(a) != 3 {
		return fmt.Errorf("bad case %s", b)
	}
	if err := json.Unmarshal(a[0], &c.T); err != nil {
		return err
	}
	if err := json.Unmarshal(a[1], &c.Off); err != nil {
		return err
	}
	return json.Unmarshal(a[2], &c.V)
}

// gcase = [t, notify, names of the mute intervals containing t, inactive]
type gcase struct {
	T        int64
	Notify   bool
	Muting   []string
	Inactive bool
}

func (c *gcase) UnmarshalJSON(b []byte) error {
	var a []json.RawMessage
	if err := json.Unmarshal(b, &a); err != nil || len(a) != 4 {
		return fmt.Errorf("bad gate case %s", b)
	}
	if err := json.Unmarshal(a[0], &c.T); err != nil {
		return err
	}
	if err := json.Unmarshal(a[1], &c.Notify); err != nil {
		return err
	}
	if err := json.Unmarshal(a[2], &c.Muting); err != nil {
		return err
	}
	return json.Unmarshal(a[3], &c.Inactive)
}

type line struct {
	Kind     string              `json:"kind"`
	Si       int                 `json:"si"`
	Y        int                 `json:"y"`
	Ti       tiSpec              `json:"ti"`
	Explicit []string            `json:"explicit"`
	C        json.RawMessage     `json:"c"`
	Defs     map[string][]tiSpec `json:"defs"`
	Mute     []string            `json:"mute"`
	Active   []string            `json:"active"`
}

// ---------------------------------------------------------------- rendering

var (
	dayNames   = []string{"sunday", "monday", "tuesday", "wednesday", "thursday", "friday", "saturday"}
	monthNames = []string{"", "january", "february", "march", "april", "may", "june", "july", "august", "september", "october", "november", "december"}
)

func hhmm(m int) string { return fmt.Sprintf("%02d:%02d", m/60, m%60) }

func mixCase(s string, style int) string {
	switch style {
	case 1:
		return strings.ToUpper(s[:1]) + s[1:]
	case 2:
		return strings.ToUpper(s)
	}
	return s
}

// rangeStr renders an inclusive range the way a configuration author may: a single value
// as "x" or "x:x", a range as "b:e"; weekdays by name, months by name or number.
func rangeStr(field string, r rng, style int) string {
	one := func(v int) string {
		switch field {
		case "weekdays":
			return mixCase(dayNames[v], style)
		case "months":
			if style != 0 {
				return mixCase(monthNames[v], style)
			}
		}
		return fmt.Sprint(v)
	}
	if r.B == r.E && style != 1 {
		return one(r.B)
	}
	return one(r.B) + ":" + one(r.E)
}

// renderMap builds the generic document of one time interval.
func renderMap(s tiSpec, explicit []string, style int) map[string]any {
	m := map[string]any{}
	if len(s.Times) > 0 {
		var l []any
		for _, r := range s.Times {
			l = append(l, map[string]any{"start_time": hhmm(r.B), "end_time": hhmm(r.E)})
		}
		m["times"] = l
	}
	for _, f := range []struct {
		name, key string
		rs        []rng
	}{{"weekdays", "weekdays", s.Weekdays}, {"dom", "days_of_month", s.Dom}, {"months", "months", s.Months}, {"years", "years", s.Years}} {
		if len(f.rs) > 0 {
			var l []any
			for _, r := range f.rs {
				l = append(l, rangeStr(f.name, r, style))
			}
			m[f.key] = l
		}
	}
	for _, f := range explicit {
		key := f
		if f == "dom" {
			key = "days_of_month"
		}
		m[key] = []any{}
	}
	if s.Loc != "" {
		m["location"] = s.Loc
	}
	return m
}

// parse renders the specification (style 0,1: YAML; 2: JSON) and parses it with the real
// unmarshalers.
func parse(s tiSpec, explicit []string, style int) (timeinterval.TimeInterval, string, error) {
	var ti timeinterval.TimeInterval
	doc := renderMap(s, explicit, style)
	if style == 2 {
		b, err := json.Marshal(doc)
		if err != nil {
			return ti, "", err
		}
		dec := json.NewDecoder(bytes.NewReader(b))
		dec.DisallowUnknownFields()
		return ti, string(b), dec.Decode(&ti)
	}
	b, err := yaml.Marshal(doc)
	if err != nil {
		return ti, "", err
	}
	return ti, string(b), yaml.UnmarshalStrict(b, &ti)
}

// ---------------------------------------------------------------- known gaps (reported, see checks/c15.py)

const (
	classEmptyList  = "C15-EMPTYLIST"  // a field given as an explicit empty list matches nothing
	classSkippedDay = "C15-SKIPPEDDAY" // month whose last calendar day does not exist in the zone: daysInMonth is wrong
	classZoneRule   = "model-zone-rule"
	classParse      = "parser-rejects"
)

// emptyListGapReproduces runs the canonical reproducer of the explicit-empty-list gap.
func emptyListGapReproduces() bool {
	var ti timeinterval.TimeInterval
	if err := yaml.UnmarshalStrict([]byte("times: []\n"), &ti); err != nil {
		return false
	}
	return !ti.ContainsTime(time.Unix(0, 0).UTC())
}

// lastDayMissing reports whether the last calendar day of the local month of t does not
// exist in loc (its noon is not a local time of the zone): the signature of classSkippedDay.
func lastDayMissing(t time.Time, loc *time.Location) bool {
	lt := t.In(loc)
	y, m := lt.Year(), lt.Month()
	l := calendarMonthLen(y, int(m))
	p := time.Date(y, m, l, 12, 0, 0, 0, loc)
	return p.Day() != l || p.Month() != m
}

func calendarMonthLen(y, m int) int {
	switch m {
	case 2:
		if (y%4 == 0 && y%100 != 0) || y%400 == 0 {
			return 29
		}
		return 28
	case 4, 6, 9, 11:
		return 30
	}
	return 31
}

type classed struct {
	res *hx.Result
}

// add records a classified mismatch: all are counted, two per class are kept.
func (c classed) add(class string, m hx.Mismatch) {
	m.Class = class
	c.res.Count(class, 1)
	if c.res.Counters[class] <= 2 {
		c.res.Add(m)
	}
}

// ---------------------------------------------------------------- direction A

func instant(min int64, salt int) time.Time {
	// any instant within the minute reads as that minute: odd cases get seconds and nanoseconds
	var sec, ns int64
	if (min+int64(salt))%2 == 1 {
		sec = (min*7 + int64(salt)) % 60
		ns = (min * 1_000_003) % 1_000_000_000
	}
	return time.Unix(min*60+sec, ns).UTC()
}

var otherZone = time.FixedZone("elsewhere", -(9*3600 + 30*60))

func TestReplay(t *testing.T) {
	res := hx.NewResult()
	defer res.Write()
	cl := classed{res}
	gapEmpty := emptyListGapReproduces()
	if gapEmpty {
		res.Notes = append(res.Notes, "reproduced: `times: []` parses and ContainsTime(1970-01-01T00:00Z) = false (statement: an empty field matches everything)")
	}
	err := hx.Lines(*hx.In, func(i int, raw []byte) error {
		var ln line
		if err := json.Unmarshal(raw, &ln); err != nil {
			return fmt.Errorf("line %d: %v", i, err)
		}
		res.Cases++
		switch ln.Kind {
		case "ti":
			replayTI(res, cl, i, ln, gapEmpty)
		case "gate":
			replayGate(res, i, ln, raw)
		default:
			return fmt.Errorf("line %d: unknown kind %q", i, ln.Kind)
		}
		return nil
	})
	if err != nil {
		t.Fatal(err)
	}
}

func replayTI(res *hx.Result, cl classed, i int, ln line, gapEmpty bool) {
	var cases []tcase
	if err := json.Unmarshal(ln.C, &cases); err != nil {
		res.Add(hx.Mismatch{Case: i, What: "harness: cases", Got: err.Error(), Class: classParse})
		return
	}
	style := (ln.Si + ln.Y) % 3
	ti, doc, err := parse(ln.Ti, ln.Explicit, style)
	rep := func(c tcase) json.RawMessage {
		return hx.J(map[string]any{"kind": "ti", "si": ln.Si, "y": ln.Y, "ti": ln.Ti, "explicit": ln.Explicit,
			"c": [][]any{{c.T, c.Off, c.V}}})
	}
	if err != nil {
		cl.add(classParse, hx.Mismatch{Case: i, What: "the parser rejects a generated specification", Want: doc, Got: err.Error()})
		return
	}
	var loc *time.Location
	if ln.Ti.Loc != "" {
		if ti.Location == nil {
			res.Add(hx.Mismatch{Case: i, What: "location lost by the parser", Want: ln.Ti.Loc, Got: doc})
			return
		}
		loc = ti.Location.Location
	}
	iv := timeinterval.NewIntervener(map[string][]timeinterval.TimeInterval{"x": {ti}})
	if len(res.Samples) < 3 && len(cases) > 0 {
		res.Sample(hx.J(map[string]any{"document": doc, "instant": instant(cases[0].T, ln.Si).Format(time.RFC3339Nano), "want": cases[0].V}))
	}
	nt, nf := 0, 0
	for _, c := range cases {
		res.Steps++
		tm := instant(c.T, ln.Si)
		off := 0
		if loc != nil {
			_, o := tm.In(loc).Zone()
			if o%60 != 0 {
				cl.add(classZoneRule, hx.Mismatch{Case: i, What: "zone offset with seconds", Got: o, Replay: rep(c)})
				continue
			}
			off = o / 60
		}
		if off != c.Off {
			cl.add(classZoneRule, hx.Mismatch{Case: i, What: fmt.Sprintf("offset of %s at %s: the rule in TimeIntervals.tla disagrees with the zone database", ln.Ti.Loc, tm.Format(time.RFC3339)),
				Want: c.Off, Got: off, Replay: rep(c)})
			continue
		}
		got := ti.ContainsTime(tm)
		// the gate: Intervener.Mutes, called with the instant in some other zone
		muted, names, merr := iv.Mutes([]string{"x"}, tm.In(otherZone))
		if c.V {
			nt++
		} else {
			nf++
		}
		what := ""
		switch {
		case merr != nil:
			what = "Intervener.Mutes error " + merr.Error()
		case got != c.V:
			what = "ContainsTime"
		case muted != c.V || (muted && (len(names) != 1 || names[0] != "x")) || (!muted && len(names) != 0):
			what = fmt.Sprintf("Intervener.Mutes = (%v, %v)", muted, names)
			got = muted
		}
		if what == "" {
			continue
		}
		m := hx.Mismatch{Case: i, What: fmt.Sprintf("%s of %s at %s", what, strings.TrimSpace(strings.ReplaceAll(doc, "\n", "; ")), tm.Format(time.RFC3339Nano)),
			Want: c.V, Got: got, Replay: rep(c)}
		if gapEmpty && len(ln.Explicit) > 0 && c.V && !got {
			cl.add(classEmptyList, m)
			continue
		}
		res.Add(m)
	}
	if nt > 0 && nf > 0 {
		res.Nontrivial++
	}
	res.Count("verdict_true", nt)
	res.Count("verdict_false", nf)
	res.Count("style_"+[]string{"yaml_numeric", "yaml_names", "json"}[style], 1)
	res.Count("zone_"+ln.Ti.Loc, 1)
}

// ---------------------------------------------------------------- gating

func gateConfig(ln line) string {
	names := make([]string, 0, len(ln.Defs))
	for n := range ln.Defs {
		names = append(names, n)
	}
	sort.Strings(names)
	var newStyle, oldStyle []any
	for k, n := range names {
		var tis []any
		for j, s := range ln.Defs[n] {
			tis = append(tis, renderMap(s, nil, (k+j)%2))
		}
		e := map[string]any{"name": n, "time_intervals": tis}
		if k%2 == 0 {
			newStyle = append(newStyle, e)
		} else {
			oldStyle = append(oldStyle, e) // the deprecated top-level mute_time_intervals
		}
	}
	strs := func(l []string) []any {
		out := []any{}
		for _, s := range l {
			out = append(out, s)
		}
		return out
	}
	// the root route may not carry intervals: they sit on a child route
	doc := map[string]any{
		"route": map[string]any{"receiver": "r", "routes": []any{map[string]any{
			"receiver": "r", "mute_time_intervals": strs(ln.Mute), "active_time_intervals": strs(ln.Active)}}},
		"receivers":           []any{map[string]any{"name": "r"}},
		"time_intervals":      newStyle,
		"mute_time_intervals": oldStyle,
	}
	b, err := yaml.Marshal(doc)
	if err != nil {
		panic(err)
	}
	return string(b)
}

func asSet(l []string) map[string]bool {
	m := map[string]bool{}
	for _, s := range l {
		m[s] = true
	}
	return m
}

func setEq(a, b map[string]bool) bool {
	if len(a) != len(b) {
		return false
	}
	for k := range a {
		if !b[k] {
			return false
		}
	}
	return true
}

func union(a, b map[string]bool) map[string]bool {
	m := map[string]bool{}
	for k := range a {
		m[k] = true
	}
	for k := range b {
		m[k] = true
	}
	return m
}

func keys(m map[string]bool) []string {
	out := []string{}
	for k := range m {
		out = append(out, k)
	}
	sort.Strings(out)
	return out
}

func replayGate(res *hx.Result, i int, ln line, raw []byte) {
	var cases []gcase
	if err := json.Unmarshal(ln.C, &cases); err != nil {
		res.Add(hx.Mismatch{Case: i, What: "harness: gate cases", Got: err.Error(), Class: classParse})
		return
	}
	sort.Slice(cases, func(a, b int) bool { return cases[a].T < cases[b].T })
	doc := gateConfig(ln)
	cfg, err := config.Load(doc)
	if err != nil {
		res.Add(hx.Mismatch{Case: i, What: "config.Load rejects the generated configuration", Want: doc, Got: err.Error(), Class: classParse})
		return
	}
	// as app/reloader.go builds the intervener
	tis := make(map[string][]timeinterval.TimeInterval, len(cfg.MuteTimeIntervals)+len(cfg.TimeIntervals))
	for _, ti := range cfg.MuteTimeIntervals {
		tis[ti.Name] = ti.TimeIntervals
	}
	for _, ti := range cfg.TimeIntervals {
		tis[ti.Name] = ti.TimeIntervals
	}
	intervener := timeinterval.NewIntervener(tis)
	route := cfg.Route.Routes[0]

	mk := marker.NewGroupMarker()
	metrics := notify.NewMetrics(prometheus.NewRegistry(), featurecontrol.NoopFlags{})
	sentCount := 0
	recorder := notify.StageFunc(func(ctx context.Context, _ *slog.Logger, as ...*alert.Alert) (context.Context, []*alert.Alert, error) {
		sentCount += len(as)
		return ctx, as, nil
	})
	// the order of notify.PipelineBuilder.New: active stage, then mute stage, then the rest
	pipeline := notify.MultiStage{notify.NewTimeActiveStage(intervener, mk, metrics), notify.NewTimeMuteStage(intervener, mk, metrics), recorder}
	logger := slog.New(slog.DiscardHandler)
	const routeID, gkey = "{}/{}/0", "{}/{}:{a=\"b\"}"
	active := asSet(ln.Active)
	if res.Counters["gate_sampled"] == 0 && len(ln.Mute) > 0 && len(ln.Active) > 0 {
		res.Count("gate_sampled", 1)
		res.Sample(hx.J(map[string]any{"gate_config": doc}))
	}
	nontrivialN, nontrivialM := false, false
	for j, c := range cases {
		res.Steps++
		now := instant(c.T, j)
		a := &alert.Alert{Alert: model.Alert{Labels: model.LabelSet{"a": "b"}, StartsAt: now.Add(-time.Hour), EndsAt: now.Add(time.Hour)}, UpdatedAt: now}
		ctx := notify.WithNow(context.Background(), now.In(otherZone))
		ctx = notify.WithGroupKey(ctx, gkey)
		ctx = notify.WithRouteID(ctx, routeID)
		ctx = notify.WithMuteTimeIntervals(ctx, route.MuteTimeIntervals)
		ctx = notify.WithActiveTimeIntervals(ctx, route.ActiveTimeIntervals)
		before := sentCount
		_, out, err := pipeline.Exec(ctx, logger, a)
		sent := sentCount - before
		by, isMuted := mk.Muted(routeID, gkey)
		bad := func(what string, want, got any) {
			res.Add(hx.Mismatch{Case: i, Step: j, What: fmt.Sprintf("gating at %s (mute %v, active %v): %s", now.Format(time.RFC3339), ln.Mute, ln.Active, what),
				Want: want, Got: got,
				Replay: hx.J(map[string]any{"kind": "gate", "defs": ln.Defs, "mute": ln.Mute, "active": ln.Active,
					"c": [][]any{{c.T, c.Notify, c.Muting, c.Inactive}}})})
		}
		if err != nil {
			bad("stage error", nil, err.Error())
			continue
		}
		if c.Notify {
			nontrivialN = true
			if sent != 1 || len(out) != 1 {
				bad("a flush that must notify sent nothing", 1, sent)
			}
			if isMuted || len(by) != 0 {
				bad("group reported muted although the flush notified", []string{}, by)
			}
			continue
		}
		nontrivialM = true
		if sent != 0 || len(out) != 0 {
			bad("a muted flush sent alerts", 0, sent)
		}
		got := asSet(by)
		muting := asSet(c.Muting)
		ok := false
		switch {
		case !isMuted || len(got) == 0:
		case c.Inactive && len(muting) > 0:
			ok = setEq(got, active) || setEq(got, muting) || setEq(got, union(active, muting))
		case c.Inactive:
			ok = setEq(got, active)
		default:
			ok = setEq(got, muting)
		}
		if !ok {
			want := keys(muting)
			if c.Inactive {
				want = keys(active)
			}
			bad("muted group not reported with the muting interval names", want, map[string]any{"muted": isMuted, "by": by})
		}
	}
	if nontrivialN && nontrivialM {
		res.Nontrivial++
	}
	res.Count("gate_lines", 1)
}

// ---------------------------------------------------------------- direction B

func allZones() []string {
	seen := map[string]bool{}
	add := func(n string) {
		if n == "" || seen[n] || n[0] < 'A' || n[0] > 'Z' {
			return
		}
		if strings.HasPrefix(n, "posix/") || strings.HasPrefix(n, "right/") || n == "Factory" || strings.Contains(n, ".") {
			return
		}
		if _, err := time.LoadLocation(n); err == nil {
			seen[n] = true
		}
	}
	root := "/usr/share/zoneinfo"
	filepath.WalkDir(root, func(p string, d fs.DirEntry, err error) error {
		if err != nil || d.IsDir() {
			return nil
		}
		f, err := os.Open(p)
		if err != nil {
			return nil
		}
		magic := make([]byte, 4)
		n, _ := f.Read(magic)
		f.Close()
		if n == 4 && string(magic) == "TZif" {
			add(strings.TrimPrefix(p, root+"/"))
		}
		return nil
	})
	if zp := os.Getenv("C15_ZONEZIP"); zp != "" {
		if zr, err := zip.OpenReader(zp); err == nil {
			for _, f := range zr.File {
				if !strings.HasSuffix(f.Name, "/") {
					add(f.Name)
				}
			}
			zr.Close()
		}
	}
	out := make([]string, 0, len(seen))
	for n := range seen {
		out = append(out, n)
	}
	sort.Strings(out)
	return out
}

// transitions lists the instants (unix seconds) at which the zone changes between
// 1970 and 2040, through time.Time.ZoneBounds.
func transitions(loc *time.Location) []int64 {
	var out []int64
	t := time.Unix(0, 0).In(loc)
	limit := time.Date(2040, 1, 1, 0, 0, 0, 0, time.UTC)
	for len(out) < 400 {
		_, end := t.ZoneBounds()
		if end.IsZero() || end.After(limit) {
			break
		}
		out = append(out, end.Unix())
		t = end
	}
	return out
}

type event struct {
	Run  int    `json:"run"`
	Zone string `json:"zone"`
	Ti   tiSpec `json:"ti"`
	T    int64  `json:"t"`
	Off  int    `json:"off"`
	V    bool   `json:"v"`
}

func nonNil(s tiSpec) tiSpec {
	for _, p := range []*[]rng{&s.Times, &s.Weekdays, &s.Dom, &s.Months, &s.Years} {
		if *p == nil {
			*p = []rng{}
		}
	}
	return s
}

// TestRecord: -in = generated lines (source of the interval specifications), -n =
// instants per zone, -depth = number of zones (0 = all), -seed.
func TestRecord(t *testing.T) {
	res := hx.NewResult()
	defer res.Write()
	cl := classed{res}
	tw, err := hx.NewTraceWriter(*hx.Trace)
	if err != nil {
		t.Fatal(err)
	}
	defer tw.Close()
	// the specifications of the grammar, without location
	var specs []tiSpec
	seen := map[int]bool{}
	err = hx.Lines(*hx.In, func(i int, raw []byte) error {
		var ln line
		if err := json.Unmarshal(raw, &ln); err != nil {
			return err
		}
		if ln.Kind == "ti" && !seen[ln.Si] && len(ln.Explicit) == 0 {
			seen[ln.Si] = true
			s := ln.Ti
			s.Loc = ""
			specs = append(specs, s)
		}
		return nil
	})
	if err != nil || len(specs) == 0 {
		t.Fatalf("no specifications in %s: %v", *hx.In, err)
	}
	sort.Slice(specs, func(a, b int) bool { return string(hx.J(specs[a])) < string(hx.J(specs[b])) })
	zones := allZones()
	rnd := rand.New(rand.NewSource(*hx.Seed))
	if *hx.Depth > 0 && *hx.Depth < len(zones) {
		rnd.Shuffle(len(zones), func(a, b int) { zones[a], zones[b] = zones[b], zones[a] })
		zones = zones[:*hx.Depth]
		sort.Strings(zones)
	}
	res.Count("zones", len(zones))
	res.Count("specs", len(specs))
	lo := time.Date(1970, 1, 2, 0, 0, 0, 0, time.UTC).Unix() / 60
	hi := time.Date(2105, 1, 1, 0, 0, 0, 0, time.UTC).Unix() / 60
	eraYears := []int{1970, 1980, 1994, 1995, 1999, 2000, 2001, 2011, 2012, 2023, 2024, 2025, 2026, 2027, 2038, 2096, 2100, 2104}
	run := 0
	for _, zn := range zones {
		loc, err := time.LoadLocation(zn)
		if err != nil {
			continue
		}
		res.Cases++
		trs := transitions(loc)
		res.Count("zone_transitions", len(trs))
		emitted := 0
		// representative of the known gap classSkippedDay: the minute before a transition that
		// removes the last calendar day of a month, with days_of_month 1:31
		for _, tr := range trs {
			tm := time.Unix(tr-60, 0).UTC()
			_, o := tm.In(loc).Zone()
			if tr/60 > lo && o%60 == 0 && lastDayMissing(tm, loc) && res.Counters["representative_month_without_last_day"] < 1 {
				spec := tiSpec{Dom: []rng{{1, 31}}, Loc: zn}
				ti, _, err := parse(spec, nil, 0)
				if err == nil {
					res.Count("representative_month_without_last_day", 1)
					tw.Emit(event{Run: -1 - run, Zone: zn, Ti: nonNil(spec), T: floorDiv(tr-60, 60), Off: o / 60, V: ti.ContainsTime(tm)})
					run++
				}
			}
		}
		for k := 0; k < *hx.N; k++ {
			spec := specs[rnd.Intn(len(specs))]
			spec.Loc = zn
			var min int64
			switch c := rnd.Intn(10); {
			case c < 4 && len(trs) > 0: // around a transition of the zone
				tr := trs[rnd.Intn(len(trs))]
				d := []int64{-1441, -61, -60, -31, -30, -2, -1, 0, 1, 2, 29, 30, 31, 59, 60, 61, 1439}[rnd.Intn(17)]
				min = floorDiv(tr, 60) + d
			case c < 8: // a local day at a month edge (or anywhere) at a minute of interest
				y := eraYears[rnd.Intn(len(eraYears))]
				m := 1 + rnd.Intn(12)
				l := calendarMonthLen(y, m)
				day := []int{1, 2, l - 2, l - 1, l, 28, 13, 1 + rnd.Intn(l)}[rnd.Intn(8)]
				mods := []int{0, 1, 720, 1438, 1439}
				for _, r := range spec.Times {
					mods = append(mods, r.B-1, r.B, r.B+1, r.E-1, r.E, r.E+1)
				}
				mod := mods[rnd.Intn(len(mods))]
				if mod < 0 || mod > 1439 {
					mod = 0
				}
				min = floorDiv(time.Date(y, time.Month(m), day, mod/60, mod%60, 0, 0, loc).Unix(), 60)
			default:
				min = lo + rnd.Int63n(hi-lo)
			}
			if min < lo || min >= hi {
				continue
			}
			tm := instant(min, k)
			_, o := tm.In(loc).Zone()
			if o%60 != 0 {
				res.Count("skipped_offset_with_seconds", 1)
				continue
			}
			style := k % 3
			ti, doc, err := parse(spec, nil, style)
			if err != nil {
				cl.add(classParse, hx.Mismatch{Case: run, What: "the parser rejects a generated specification", Want: doc, Got: err.Error()})
				continue
			}
			v := ti.ContainsTime(tm)
			if len(spec.Dom) > 0 && lastDayMissing(tm, loc) {
				// signature of the known gap classSkippedDay: such instants are represented by
				// the one deterministic event above (negative run id), not by random ones
				res.Count("instants_in_month_without_last_day", 1)
				continue
			}
			tw.Emit(event{Run: run, Zone: zn, Ti: nonNil(spec), T: min, Off: o / 60, V: v})
			run++
			emitted++
			res.Steps++
			if v {
				res.Count("verdict_true", 1)
			} else {
				res.Count("verdict_false", 1)
			}
			if len(res.Samples) < 3 && v && len(trs) > 0 {
				res.Sample(hx.J(map[string]any{"zone": zn, "document": doc, "instant": tm.Format(time.RFC3339), "offset_min": o / 60, "real_verdict": v}))
			}
		}
		if emitted > 0 {
			res.Nontrivial++
		}
	}
}

// TestReevent re-evaluates recorded events (-in) on the real code and writes them, with the
// offset and verdict found now, to -trace (used by `bin/check C15 --replay`).
func TestReevent(t *testing.T) {
	res := hx.NewResult()
	defer res.Write()
	tw, err := hx.NewTraceWriter(*hx.Trace)
	if err != nil {
		t.Fatal(err)
	}
	defer tw.Close()
	err = hx.Lines(*hx.In, func(i int, raw []byte) error {
		var ev event
		if err := json.Unmarshal(raw, &ev); err != nil {
			return err
		}
		ti, doc, err := parse(ev.Ti, nil, 0)
		if err != nil {
			return fmt.Errorf("%s: %v", doc, err)
		}
		tm := time.Unix(ev.T*60, 0).UTC()
		off := 0
		if ti.Location != nil {
			_, o := tm.In(ti.Location.Location).Zone()
			off = o / 60
		}
		res.Cases++
		tw.Emit(event{Run: i, Zone: ev.Zone, Ti: nonNil(ev.Ti), T: ev.T, Off: off, V: ti.ContainsTime(tm)})
		return nil
	})
	if err != nil {
		t.Fatal(err)
	}
}

func floorDiv(a, b int64) int64 {
	q := a / b
	if a%b != 0 && (a < 0) != (b < 0) {
		q--
	}
	return q
}
