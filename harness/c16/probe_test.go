package c16

import (
	"fmt"
	"regexp"
	"testing"

	"github.com/prometheus/alertmanager/matcher/parse"
	"github.com/prometheus/alertmanager/pkg/labels"
)

func show(s string) {
	m, err := parse.Matchers(s)
	fmt.Printf("U8L %q -> %v err=%v\n", s, m, err)
	for _, x := range m {
		fmt.Printf("    t=%v n=%q v=%q\n", x.Type, x.Name, x.Value)
	}
	c, err := labels.ParseMatchers(s)
	fmt.Printf("CLL %q -> %v err=%v\n", s, c, err)
	for _, x := range c {
		fmt.Printf("    t=%v n=%q v=%q\n", x.Type, x.Name, x.Value)
	}
	c1, err := labels.ParseMatcher(s)
	fmt.Printf("CLM %q -> %v err=%v\n", s, c1, err)
}

func TestProbe(t *testing.T) {
	for _, s := range []string{"a=\xff", "a=\"\xff\"", "\"\"=a", "a=\"\n\"", "a=~\\z", "a=~{9}", "a=~z{9}", "a=\\", "a=b,", ",", "a = b", "a= b", "a=b ", " a=b"} {
		show(s)
	}
	m, _ := labels.NewMatcher(labels.MatchEqual, "", "a")
	fmt.Println(m.String())
	m, _ = labels.NewMatcher(labels.MatchEqual, "a ", "a\tb \x7f")
	fmt.Println(m.String())
	for _, p := range []string{`\z`, `\L`, `\9`, `\_`, `\:`, `\-`, `\é`, `\ `, `\{`, "\\\n", `\'`, "\\`", `\"`, `\,`, `\=`, `\!`, `\~`, `\}`, `{9}`, `z{9}`, `{{9}`, `{9,}`, `z{9,`, "\\", "�", "\xff", `\n`} {
		_, err := regexp.Compile("^(?:" + p + ")$")
		fmt.Printf("RE %q %v\n", p, err)
	}
}
