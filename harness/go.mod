module verif/harness

go 1.25.0

require (
	github.com/cespare/xxhash/v2 v2.3.0
	github.com/hashicorp/memberlist v0.6.0
	github.com/prometheus/alertmanager v0.0.0
	github.com/prometheus/client_golang v1.24.1
	github.com/prometheus/client_model v0.6.2
	github.com/prometheus/common v0.70.1
	github.com/prometheus/exporter-toolkit v0.17.1
	go.opentelemetry.io/otel v1.44.0
	go.opentelemetry.io/otel/trace v1.44.0
	google.golang.org/protobuf v1.36.11
	gopkg.in/yaml.v2 v2.4.0
)

require (
	github.com/alecthomas/kingpin/v2 v2.4.0 // indirect
	github.com/alecthomas/units v0.0.0-20240927000941-0f3dac36c52b // indirect
	github.com/armon/go-metrics v0.4.1 // indirect
	github.com/aws/aws-sdk-go-v2 v1.43.2 // indirect
	github.com/aws/aws-sdk-go-v2/config v1.32.33 // indirect
	github.com/aws/aws-sdk-go-v2/credentials v1.19.32 // indirect
	github.com/aws/aws-sdk-go-v2/feature/ec2/imds v1.18.33 // indirect
	github.com/aws/aws-sdk-go-v2/internal/configsources v1.4.33 // indirect
	github.com/aws/aws-sdk-go-v2/internal/endpoints/v2 v2.7.33 // indirect
	github.com/aws/aws-sdk-go-v2/internal/v4a v1.4.34 // indirect
	github.com/aws/aws-sdk-go-v2/service/internal/accept-encoding v1.13.14 // indirect
	github.com/aws/aws-sdk-go-v2/service/internal/presigned-url v1.13.33 // indirect
	github.com/aws/aws-sdk-go-v2/service/signin v1.5.2 // indirect
	github.com/aws/aws-sdk-go-v2/service/sns v1.42.2 // indirect
	github.com/aws/aws-sdk-go-v2/service/sso v1.33.2 // indirect
	github.com/aws/aws-sdk-go-v2/service/ssooidc v1.38.2 // indirect
	github.com/aws/aws-sdk-go-v2/service/sts v1.45.2 // indirect
	github.com/aws/smithy-go v1.27.5 // indirect
	github.com/beorn7/perks v1.0.1 // indirect
	github.com/cenkalti/backoff/v5 v5.0.3 // indirect
	github.com/coreos/go-systemd/v22 v22.7.0 // indirect
	github.com/docker/go-units v0.5.0 // indirect
	github.com/felixge/httpsnoop v1.0.4 // indirect
	github.com/fsnotify/fsnotify v1.10.1 // indirect
	github.com/go-logr/logr v1.4.4 // indirect
	github.com/go-logr/stdr v1.2.2 // indirect
	github.com/go-openapi/analysis v0.25.5 // indirect
	github.com/go-openapi/errors v0.22.8 // indirect
	github.com/go-openapi/jsonpointer v1.0.0 // indirect
	github.com/go-openapi/jsonreference v1.0.0 // indirect
	github.com/go-openapi/loads v0.25.0 // indirect
	github.com/go-openapi/runtime v0.33.0 // indirect
	github.com/go-openapi/runtime/server-middleware v0.33.0 // indirect
	github.com/go-openapi/spec v0.22.9 // indirect
	github.com/go-openapi/strfmt v0.27.0 // indirect
	github.com/go-openapi/swag v0.28.0 // indirect
	github.com/go-openapi/swag/cmdutils v0.28.0 // indirect
	github.com/go-openapi/swag/conv v0.28.0 // indirect
	github.com/go-openapi/swag/fileutils v0.28.0 // indirect
	github.com/go-openapi/swag/jsonutils v0.28.0 // indirect
	github.com/go-openapi/swag/loading v0.28.0 // indirect
	github.com/go-openapi/swag/mangling v0.28.0 // indirect
	github.com/go-openapi/swag/netutils v0.28.0 // indirect
	github.com/go-openapi/swag/pools v0.28.0 // indirect
	github.com/go-openapi/swag/stringutils v0.28.0 // indirect
	github.com/go-openapi/swag/typeutils v0.28.0 // indirect
	github.com/go-openapi/swag/yamlutils v0.28.0 // indirect
	github.com/go-openapi/validate v0.26.1 // indirect
	github.com/go-viper/mapstructure/v2 v2.5.0 // indirect
	github.com/golang-jwt/jwt/v5 v5.3.1 // indirect
	github.com/google/btree v1.1.3 // indirect
	github.com/google/uuid v1.6.0 // indirect
	github.com/grpc-ecosystem/grpc-gateway/v2 v2.29.0 // indirect
	github.com/hashicorp/errwrap v1.1.0 // indirect
	github.com/hashicorp/go-immutable-radix v1.3.1 // indirect
	github.com/hashicorp/go-metrics v0.6.0 // indirect
	github.com/hashicorp/go-msgpack/v2 v2.1.5 // indirect
	github.com/hashicorp/go-multierror v1.1.1 // indirect
	github.com/hashicorp/go-sockaddr v1.0.7 // indirect
	github.com/hashicorp/golang-lru v0.5.4 // indirect
	github.com/hashicorp/golang-lru/v2 v2.0.7 // indirect
	github.com/jessevdk/go-flags v1.6.1 // indirect
	github.com/jpillora/backoff v1.0.0 // indirect
	github.com/julienschmidt/httprouter v1.3.0 // indirect
	github.com/klauspost/compress v1.19.1 // indirect
	github.com/mdlayher/socket v0.6.0 // indirect
	github.com/mdlayher/vsock v1.3.0 // indirect
	github.com/miekg/dns v1.1.72 // indirect
	github.com/munnerz/goautoneg v0.0.0-20191010083416-a7dc8b61c822 // indirect
	github.com/mwitkow/go-conntrack v0.0.0-20190716064945-2f068394615f // indirect
	github.com/oklog/run v1.2.0 // indirect
	github.com/oklog/ulid/v2 v2.1.2 // indirect
	github.com/pierrec/lz4/v4 v4.1.26 // indirect
	github.com/prometheus/procfs v0.21.1 // indirect
	github.com/prometheus/sigv4 v0.4.1 // indirect
	github.com/rs/cors v1.11.1 // indirect
	github.com/sean-/seed v0.0.0-20170313163322-e2103e2c3529 // indirect
	github.com/twmb/franz-go v1.21.5 // indirect
	github.com/twmb/franz-go/pkg/kmsg v1.13.1 // indirect
	github.com/twmb/franz-go/plugin/kslog v1.0.0 // indirect
	github.com/xhit/go-str2duration/v2 v2.1.0 // indirect
	github.com/xlab/treeprint v1.2.0 // indirect
	go.opentelemetry.io/auto/sdk v1.2.1 // indirect
	go.opentelemetry.io/contrib/instrumentation/net/http/httptrace/otelhttptrace v0.69.0 // indirect
	go.opentelemetry.io/contrib/instrumentation/net/http/otelhttp v0.69.0 // indirect
	go.opentelemetry.io/otel/exporters/otlp/otlptrace v1.44.0 // indirect
	go.opentelemetry.io/otel/exporters/otlp/otlptrace/otlptracegrpc v1.44.0 // indirect
	go.opentelemetry.io/otel/exporters/otlp/otlptrace/otlptracehttp v1.44.0 // indirect
	go.opentelemetry.io/otel/metric v1.44.0 // indirect
	go.opentelemetry.io/otel/sdk v1.44.0 // indirect
	go.opentelemetry.io/proto/otlp v1.10.0 // indirect
	go.yaml.in/yaml/v2 v2.4.4 // indirect
	go.yaml.in/yaml/v3 v3.0.4 // indirect
	golang.org/x/crypto v0.54.0 // indirect
	golang.org/x/mod v0.38.0 // indirect
	golang.org/x/net v0.57.0 // indirect
	golang.org/x/oauth2 v0.36.0 // indirect
	golang.org/x/sync v0.22.0 // indirect
	golang.org/x/sys v0.47.0 // indirect
	golang.org/x/text v0.40.0 // indirect
	golang.org/x/time v0.15.0 // indirect
	google.golang.org/genproto/googleapis/api v0.0.0-20260526163538-3dc84a4a5aaa // indirect
	google.golang.org/genproto/googleapis/rpc v0.0.0-20260526163538-3dc84a4a5aaa // indirect
	google.golang.org/grpc v1.82.1 // indirect
	gopkg.in/telebot.v3 v3.3.8 // indirect
)

replace github.com/prometheus/alertmanager => /repo
