// Conformance harness for concurrent deliveries through ONE notifier instance
// (spec/DeliveryConc.tla): replays the sets of 2 - 4 batches printed by TLC from
// spec/mc/Gen_DeliveryConc.tla.  Per set ONE real notifier (notify/webhook or notify/pagerduty)
// behind ONE real notify.RetryStage + notify.SetNotifiesStage (real nflog.Log), as the
// receiver's integration is shared by all aggregation groups; the calls of a set (different
// group keys) are released together, several rounds per set, against a loopback endpoint that
// records every request body and answers 200 after a few milliseconds.
//
// Judged (no timing involved: what the endpoint received is a fact):
//   - every body received is, whole and well-formed, the payload of ONE call of the round
//     (identified by group key / dedup key) with exactly the content Delivery.tla expects for
//     that call's batch alone; for the webhook the request URL (templated with the group label
//     `call`) tells which call sent it: it must be the same call
//   - a call that reported success has exactly one such body (none when nothing is to be sent),
//     a call is recorded in the notification log only then
package c20p

import (
	"context"
	"crypto/sha256"
	"encoding/json"
	"fmt"
	"io"
	"net/http"
	"net/http/httptest"
	"net/url"
	"sort"
	"strconv"
	"strings"
	"sync"
	"sync/atomic"
	"testing"
	"time"

	"github.com/prometheus/client_golang/prometheus"
	commoncfg "github.com/prometheus/common/config"
	"github.com/prometheus/common/model"

	amcommoncfg "github.com/prometheus/alertmanager/config/common"
	"github.com/prometheus/alertmanager/eventrecorder"
	"github.com/prometheus/alertmanager/featurecontrol"
	"github.com/prometheus/alertmanager/nflog"
	"github.com/prometheus/alertmanager/nflog/nflogpb"
	"github.com/prometheus/alertmanager/notify"
	"github.com/prometheus/alertmanager/notify/pagerduty"
	"github.com/prometheus/alertmanager/notify/webhook"
	"github.com/prometheus/alertmanager/template"

	"verif/harness/hx"
)

type concCase struct {
	K     string   `json:"k"`
	Nt    string   `json:"nt"`
	Sr    bool     `json:"sr"`
	Max   int      `json:"max"`
	Calls []*tcase `json:"calls"`
}

const (
	concRounds  = 4
	concLatency = 4 * time.Millisecond
	concFlush   = 5 * time.Second
)

// pagerduty details that list the payload's alerts
const (
	pdAlertsTmpl = `{{ range .Alerts }}[{{ .Status }}:{{ range .Labels.SortedPairs }}{{ .Name }}={{ .Value }},{{ end }}|{{ range .Annotations.SortedPairs }}{{ .Name }}={{ .Value }},{{ end }}]{{ end }}`
	pdCommonTmpl = `{{ range .CommonLabels.SortedPairs }}{{ .Name }}={{ .Value }},{{ end }}|{{ range .CommonAnnotations.SortedPairs }}{{ .Name }}={{ .Value }},{{ end }}`
)

type concBody struct {
	Path string `json:"path"`
	Raw  string `json:"body"`
	Err  string `json:"read_err,omitempty"`
}

type concEnv struct {
	srv     *httptest.Server
	mu      sync.Mutex
	bodies  map[string][]concBody // set id -> requests received
	tmpl    *template.Template
	metrics *notify.Metrics
	nlog    *nflog.Log
}

func newConcEnv(t *testing.T) *concEnv {
	e := &concEnv{bodies: map[string][]concBody{}}
	tmpl, err := template.FromGlobs(nil)
	if err != nil {
		t.Fatalf("template.FromGlobs: %v", err)
	}
	tmpl.ExternalURL, _ = url.Parse("http://am.example")
	e.tmpl = tmpl
	e.metrics = notify.NewMetrics(prometheus.NewRegistry(), featurecontrol.NoopFlags{})
	e.nlog, err = nflog.New(nflog.Options{Retention: time.Hour, Metrics: prometheus.NewRegistry()})
	if err != nil {
		t.Fatalf("nflog.New: %v", err)
	}
	e.srv = httptest.NewUnstartedServer(http.HandlerFunc(func(w http.ResponseWriter, r *http.Request) {
		b, rerr := io.ReadAll(r.Body)
		parts := strings.Split(strings.Trim(r.URL.Path, "/"), "/") // s/<set>/<sender>
		cb := concBody{Path: r.URL.Path, Raw: string(b)}
		if rerr != nil {
			cb.Err = rerr.Error()
		}
		if len(parts) >= 2 {
			e.mu.Lock()
			e.bodies[parts[1]] = append(e.bodies[parts[1]], cb)
			e.mu.Unlock()
		}
		time.Sleep(concLatency)
		w.WriteHeader(http.StatusOK)
		io.WriteString(w, `{"status":"success"}`)
	}))
	e.srv.Config.ErrorLog = nil
	e.srv.Start()
	return e
}

func (e *concEnv) take(set string) []concBody {
	e.mu.Lock()
	defer e.mu.Unlock()
	b := e.bodies[set]
	delete(e.bodies, set)
	return b
}

func (e *concEnv) notifier(c *concCase, set string) (notify.Notifier, error) {
	base := e.srv.URL + "/s/" + set
	switch c.Nt {
	case "webhook":
		return webhook.New(&webhook.WebhookConfig{
			NotifierConfig: amcommoncfg.NotifierConfig{VSendResolved: c.Sr},
			HTTPConfig:     &commoncfg.HTTPClientConfig{},
			URL:            amcommoncfg.SecretTemplateURL(base + "/{{ .GroupLabels.call }}"),
			MaxAlerts:      uint64(c.Max),
		}, e.tmpl, logger)
	case "pagerduty":
		return pagerduty.New(&pagerduty.PagerdutyConfig{
			NotifierConfig: amcommoncfg.NotifierConfig{VSendResolved: c.Sr},
			HTTPConfig:     &commoncfg.HTTPClientConfig{},
			RoutingKey:     "key",
			URL:            amcommoncfg.MustParseURL(base + "/pd"),
			Description:    "{{ .Status }}",
			Severity:       "error",
			Details:        map[string]any{"alerts": pdAlertsTmpl, "common": pdCommonTmpl, "call": "{{ .GroupLabels.call }}"},
		}, e.tmpl, logger)
	}
	return nil, fmt.Errorf("unknown notifier type %q", c.Nt)
}

type concCall struct {
	Call    string `json:"call"`
	Gkey    string `json:"group_key"`
	Err     string `json:"stage_err"`
	Panic   string `json:"panic,omitempty"`
	Entries int    `json:"nflog_entries"`
	RetMs   int64  `json:"returned_ms"`
}

var concMu sync.Mutex // guards the hx.Result of TestConcReplay (judging and counting)

type concFinding struct {
	name, text string
	call       int // index of the call concerned, -1: none
}

func sortedPairs(m kv) string {
	keys := make([]string, 0, len(m))
	for k := range m {
		keys = append(keys, k)
	}
	sort.Strings(keys)
	var b strings.Builder
	for _, k := range keys {
		b.WriteString(k + "=" + m[k] + ",")
	}
	return b.String()
}

// round delivers the calls of the set concurrently once; returns what was observed and the findings.
func (e *concEnv) round(c *concCase, set string, rnd int, stages notify.Stage, recv *nflogpb.Receiver, res *hx.Result, jd *judge) ([]concCall, []concBody, []concFinding) {
	n := len(c.Calls)
	calls := make([]concCall, n)
	var wg sync.WaitGroup
	start := make(chan struct{})
	var ready sync.WaitGroup
	t0 := time.Now()
	for j := 0; j < n; j++ {
		id := fmt.Sprintf("%s-%d-%d", set, rnd, j)
		calls[j] = concCall{Call: id, Gkey: fmt.Sprintf("{}:{call=\"%s\"}", id)}
		wg.Add(1)
		ready.Add(1)
		go func(j int) {
			defer wg.Done()
			tc := c.Calls[j]
			alerts := realAlerts(tc.Alerts)
			gl := model.LabelSet{"call": model.LabelValue(calls[j].Call)}
			for k, v := range tc.Gl {
				gl[model.LabelName(k)] = model.LabelValue(v)
			}
			var firing, resolved []uint64
			for i, a := range alerts {
				if a.Resolved() {
					resolved = append(resolved, uint64(i+1))
				} else {
					firing = append(firing, uint64(i+1))
				}
			}
			ctx, cancel := context.WithTimeout(context.Background(), concFlush)
			defer cancel()
			ctx = notify.WithReceiverName(ctx, "recv")
			ctx = notify.WithGroupKey(ctx, calls[j].Gkey)
			ctx = notify.WithGroupLabels(ctx, gl)
			ctx = notify.WithNotificationReason(ctx, notify.ReasonFirstNotification)
			ctx = notify.WithNow(ctx, time.Now())
			ctx = notify.WithFiringAlerts(ctx, firing)
			ctx = notify.WithResolvedAlerts(ctx, resolved)
			ctx = notify.WithRepeatInterval(ctx, time.Hour)
			ready.Done()
			<-start
			func() {
				defer func() {
					if p := recover(); p != nil {
						calls[j].Panic = fmt.Sprint(p)
					}
				}()
				_, _, err := stages.Exec(ctx, logger, alerts...)
				if err != nil {
					calls[j].Err = err.Error()
				}
			}()
			calls[j].RetMs = time.Since(t0).Milliseconds()
		}(j)
	}
	ready.Wait()
	close(start)
	wg.Wait()
	time.Sleep(time.Millisecond) // handlers of abandoned requests
	bodies := e.take(set)
	for j := range calls {
		entries, err := e.nlog.Query(nflog.QGroupKey(calls[j].Gkey), nflog.QReceiver(recv))
		if err == nil {
			calls[j].Entries = len(entries)
		}
	}

	// judging touches the shared result: one round at a time
	concMu.Lock()
	defer concMu.Unlock()
	var fs []concFinding
	add := func(call int, name, format string, args ...any) {
		fs = append(fs, concFinding{name: name, text: fmt.Sprintf(format, args...), call: call})
	}
	byKey := map[string]int{}
	byHash := map[string]int{}
	for j := range calls {
		byKey[calls[j].Gkey] = j
		byHash[fmt.Sprintf("%x", sha256.Sum256([]byte(calls[j].Gkey)))] = j
	}
	intact := make([]int, n)
	anyLate := false
	for j := range calls {
		if calls[j].RetMs > concFlush.Milliseconds()-200 {
			anyLate = true // a request may have been cut by the flush deadline: bodies are not judged
		}
	}
	for _, b := range bodies {
		sender := -1
		if c.Nt == "webhook" {
			parts := strings.Split(strings.Trim(b.Path, "/"), "/")
			for j := range calls {
				if len(parts) == 3 && parts[2] == calls[j].Call {
					sender = j
				}
			}
			if sender < 0 {
				add(-1, "conc_unknown_sender", "request to %s: not the URL of a call of this round", b.Path)
				continue
			}
		}
		short := b.Raw
		if len(short) > 300 {
			short = short[:300] + ".."
		}
		if anyLate {
			continue
		}
		owner := -1
		switch c.Nt {
		case "webhook":
			var got dataView
			if err := json.Unmarshal([]byte(b.Raw), &got); err != nil || b.Err != "" {
				add(sender, "conc_malformed_body", "the endpoint received from call %s a body that is not one whole JSON message (%d bytes, read error %q, %v): %q", calls[sender].Call, len(b.Raw), b.Err, err, short)
				continue
			}
			j, ok := byKey[got.GroupKey]
			if !ok {
				add(sender, "conc_foreign_body", "body with group key %q, not a call of this round", got.GroupKey)
				continue
			}
			owner = j
			if owner != sender {
				add(sender, "conc_other_groups_message", "the request of call %s (URL %s) carries the message of call %s (groupKey %s)", calls[sender].Call, b.Path, calls[owner].Call, got.GroupKey)
				continue
			}
			tc := c.Calls[owner]
			before := jd.res.Counters["mismatch_violation"] + jd.res.Counters["mismatch_EMPTYANN"]
			delete(got.GroupLabels, "call")
			jd.compareData(2, "concurrent webhook call "+calls[owner].Call, tc, &tc.Wh.Data, got, false)
			if got.TruncatedAlerts == nil || *got.TruncatedAlerts != tc.Wh.Dropped {
				jd.add(2, "", "concurrent webhook: truncatedAlerts is not the number of alerts beyond max_alerts", tc.Wh.Dropped, got.TruncatedAlerts)
			}
			if jd.res.Counters["mismatch_violation"]+jd.res.Counters["mismatch_EMPTYANN"] != before {
				continue // reported by compareData with the payload
			}
		case "pagerduty":
			var got struct {
				DedupKey    string `json:"dedup_key"`
				EventAction string `json:"event_action"`
				Payload     struct {
					Summary string         `json:"summary"`
					Details map[string]any `json:"custom_details"`
				} `json:"payload"`
			}
			if err := json.Unmarshal([]byte(b.Raw), &got); err != nil || b.Err != "" {
				add(-1, "conc_malformed_body", "the endpoint received a body that is not one whole JSON message (%d bytes, read error %q, %v): %q", len(b.Raw), b.Err, err, short)
				continue
			}
			j, ok := byHash[got.DedupKey]
			if !ok {
				add(-1, "conc_foreign_body", "body with dedup key %q, not a call of this round", got.DedupKey)
				continue
			}
			owner = j
			tc := c.Calls[owner]
			d := &tc.Wh.Data
			wantAction := "trigger"
			if d.Status == "resolved" {
				wantAction = "resolve"
			}
			var wantAlerts strings.Builder
			for _, a := range pickAlerts(tc, d.Idx) {
				wantAlerts.WriteString("[" + a.Status + ":" + sortedPairs(a.Labels) + "|" + sortedPairs(a.Annotations) + "]")
			}
			gotAlerts, _ := got.Payload.Details["alerts"].(string)
			gotCall, _ := got.Payload.Details["call"].(string)
			gotCommon, _ := got.Payload.Details["common"].(string)
			if got.EventAction != wantAction || gotAlerts != wantAlerts.String() || gotCall != calls[owner].Call || got.Payload.Summary != d.Status {
				add(owner, "conc_payload_not_own_batch", "pagerduty message of call %s: want action %s status %s alerts %q, got action %s summary %s call %q alerts %q",
					calls[owner].Call, wantAction, d.Status, wantAlerts.String(), got.EventAction, got.Payload.Summary, gotCall, gotAlerts)
				continue
			}
			if want := sortedPairs(d.Cl) + "|" + sortedPairs(d.Ca); gotCommon != want && !d.Gapa {
				add(owner, "conc_payload_not_own_batch", "pagerduty message of call %s: common labels|annotations want %q got %q", calls[owner].Call, want, gotCommon)
				continue
			}
		}
		intact[owner]++
		res.Count("conc_bodies_intact", 1)
	}
	for j := range calls {
		cl := &calls[j]
		tc := c.Calls[j]
		if cl.Panic != "" {
			add(j, "conc_panic", "call %s: the stages panic when flushes overlap: %s", cl.Call, cl.Panic)
			continue
		}
		if anyLate {
			continue
		}
		want := 1
		if !tc.Wh.Sent {
			want = 0
		}
		if cl.Err == "" {
			res.Count("conc_calls_ok", 1)
			if intact[j] < want {
				add(j, "conc_success_without_delivery", "call %s reported success%s but the endpoint never received its message intact (lost)", cl.Call, map[bool]string{true: " and is recorded in the notification log", false: ""}[cl.Entries > 0])
			} else if intact[j] > want {
				add(j, "conc_duplicate", "call %s reported success once, the endpoint received its message %d times (expected %d)", cl.Call, intact[j], want)
			}
			if cl.Entries == 0 {
				add(j, "conc_success_not_recorded", "call %s reported success but has no notification log entry", cl.Call)
			}
		} else {
			res.Count("conc_calls_failed", 1)
			if cl.Entries > 0 {
				add(j, "conc_recorded_without_success", "call %s failed (%s) and has a notification log entry", cl.Call, cl.Err)
			}
		}
	}
	return calls, bodies, fs
}

func TestConcReplay(t *testing.T) {
	if *hx.In == "" {
		t.Skip("no -in")
	}
	res := hx.NewResult()
	e := newConcEnv(t)
	defer e.srv.Close()

	type item struct {
		raw json.RawMessage
		c   *concCase
		id  int
	}
	var items []item
	err := hx.Lines(*hx.In, func(li int, line []byte) error {
		var raws []json.RawMessage
		if e := json.Unmarshal(line, &raws); e != nil {
			return fmt.Errorf("line %d: %v", li, e)
		}
		for _, raw := range raws {
			c := &concCase{}
			if e := json.Unmarshal(raw, c); e != nil {
				return fmt.Errorf("line %d: %v", li, e)
			}
			if c.K != "conc" || len(c.Calls) < 2 {
				return fmt.Errorf("line %d: not a set of concurrent calls", li)
			}
			for _, tc := range c.Calls {
				if tc.Wh == nil || len(tc.Sts) != len(tc.Alerts) || len(tc.Ends) != len(tc.Alerts) {
					return fmt.Errorf("line %d: call without expectation", li)
				}
			}
			items = append(items, item{raw: append(json.RawMessage(nil), raw...), c: c, id: len(items)})
		}
		return nil
	})
	if err != nil {
		t.Fatal(err)
	}

	var (
		wg      sync.WaitGroup
		sem     = make(chan struct{}, 6) // sets in flight
		shown   sync.Map
		nshown  atomic.Int64
		samples atomic.Int64
	)
	for _, it := range items {
		wg.Add(1)
		sem <- struct{}{}
		go func(it item) {
			defer wg.Done()
			defer func() { <-sem }()
			c := it.c
			set := strconv.Itoa(it.id)
			n, err := e.notifier(c, set)
			if err != nil {
				concMu.Lock()
				res.Count("conc_harness_errors", 1)
				concMu.Unlock()
				return
			}
			recv := &nflogpb.Receiver{GroupName: "recv", Integration: c.Nt, Idx: 0}
			integ := notify.NewIntegration(n, sendResolved(c.Sr), c.Nt, 0, "recv")
			stages := notify.MultiStage{
				notify.NewRetryStage(integ, "recv", e.metrics, eventrecorder.NopRecorder()),
				notify.NewSetNotifiesStage(e.nlog, recv),
			}
			jd := &judge{res: res, ci: it.id, raw: it.raw}
			concMu.Lock()
			res.Count("conc_sets", 1)
			res.Count("conc_sets_"+c.Nt, 1)
			concMu.Unlock()
			for rnd := 0; rnd < concRounds; rnd++ {
				calls, bodies, fs := e.round(c, set, rnd, stages, recv, res, jd)
				concMu.Lock()
				res.Count("conc_rounds", 1)
				res.Count("conc_calls", len(calls))
				res.Count("conc_bodies", len(bodies))
				for _, f := range fs {
					res.Count("mismatch_violation", 1)
					res.Count("conc_violation_"+f.name, 1)
					if _, dup := shown.LoadOrStore(f.name, true); dup && nshown.Load() >= 6 {
						continue
					}
					if nshown.Load() >= 12 {
						continue
					}
					nshown.Add(1)
					res.Add(hx.Mismatch{Case: it.id, Step: rnd, What: fmt.Sprintf("concurrent deliveries through one %s notifier (send_resolved %v, max_alerts %d, %d calls released together): %s", c.Nt, c.Sr, c.Max, len(calls), f.text),
						Got: map[string]any{"calls": calls, "requests_received": bodies}, Replay: it.raw})
				}
				if len(fs) == 0 && rnd == 0 && len(calls) >= 3 && samples.Add(1) <= 2 {
					res.Sample(hx.J(map[string]any{"k": "conc", "nt": c.Nt, "calls": calls, "requests_received": len(bodies)}))
				}
				concMu.Unlock()
			}
		}(it)
	}
	wg.Wait()
	res.Cases = len(items)
	res.Steps = res.Counters["conc_calls"]
	res.Nontrivial = res.Counters["conc_rounds"]
	if e := res.Write(); e != nil {
		t.Fatal(e)
	}
}
