// Conformance harness for the payload half of C20 (spec/Delivery.tla): replays the
// cases printed by TLC from spec/mc/Gen_Delivery.tla on the real code:
//
//	batch cases   real alerts -> notify.GetTemplateData (template.Template.Data) and the real
//	              webhook notifier behind the real notify.RetryStage (send_resolved) posting to
//	              an httptest server on loopback; the decoded JSON body is compared
//	string cases  width sequences instantiated with real code points -> notify.TruncateInRunes
//	              and notify.TruncateInBytes for every limit; laws checked, panics recovered
//
// Not run under testing/synctest (a loopback socket is used); alert end times are decades
// away from the wall clock, so no verdict depends on the time of the run.
package c20p

import (
	"bytes"
	"context"
	"encoding/json"
	"fmt"
	"io"
	"net/http"
	"net/http/httptest"
	"net/url"
	"strings"
	"sync"
	"testing"
	"time"
	"unicode/utf8"

	"github.com/prometheus/client_golang/prometheus"
	commoncfg "github.com/prometheus/common/config"
	"github.com/prometheus/common/model"
	"github.com/prometheus/common/promslog"

	amcommoncfg "github.com/prometheus/alertmanager/config/common"
	"github.com/prometheus/alertmanager/eventrecorder"
	"github.com/prometheus/alertmanager/featurecontrol"
	"github.com/prometheus/alertmanager/notify"
	"github.com/prometheus/alertmanager/notify/webhook"
	"github.com/prometheus/alertmanager/template"
	"github.com/prometheus/alertmanager/types"

	"verif/harness/hx"
)

// ---------------------------------------------------------------- model values

type kv map[string]string

func (m *kv) UnmarshalJSON(b []byte) error {
	*m = kv{}
	if bytes.Equal(bytes.TrimSpace(b), []byte("[]")) { // TLC prints the empty function as []
		return nil
	}
	var x map[string]string
	if err := json.Unmarshal(b, &x); err != nil {
		return err
	}
	*m = x
	return nil
}

type alertJ struct {
	L   kv     `json:"l"`
	A   kv     `json:"a"`
	End string `json:"end"` // past | none | future | tpast | tfuture (t..: end derived from resolve_timeout)
}

type dataExp struct {
	Status   string `json:"status"`
	Idx      []int  `json:"idx"`
	Firing   []int  `json:"firing"`
	Resolved []int  `json:"resolved"`
	Cl       kv     `json:"cl"`
	Ca       kv     `json:"ca"`
	Gl       kv     `json:"gl"`
	Icl      kv     `json:"icl"`
	Ica      kv     `json:"ica"`
	Gapl     bool   `json:"gapl"`
	Gapa     bool   `json:"gapa"`
}

type whExp struct {
	Sent    bool    `json:"sent"`
	Dropped int     `json:"dropped"`
	Data    dataExp `json:"data"`
}

type truncExp struct {
	K     int  `json:"k"`  // code points of the input kept
	Kb    int  `json:"kb"` // their bytes
	Ell   bool `json:"ell"`
	Dots  int  `json:"dots"`
	Trunc bool `json:"trunc"`
}

type limitExp struct {
	N   int      `json:"n"`
	R   truncExp `json:"r"`
	B   truncExp `json:"b"`
	Gap bool     `json:"gap"`
}

type tcase struct {
	K      string     `json:"k"`
	Alerts []alertJ   `json:"alerts,omitempty"`
	Gl     kv         `json:"gl,omitempty"`
	Sr     bool       `json:"sr"`
	Max    int        `json:"max"`
	Sts    []string   `json:"sts,omitempty"`  // per alert of the batch: status the statement expects
	Ends   []string   `json:"ends,omitempty"` // per alert: "end" (its end time is shown) | "zero"
	Td     *dataExp   `json:"td,omitempty"`
	Wh     *whExp     `json:"wh,omitempty"`
	W      []int      `json:"w,omitempty"`
	Bytes  int        `json:"bytes,omitempty"`
	E      []limitExp `json:"e,omitempty"`
}

// Classes of mismatches (hx.Mismatch.Class), read by checks/c20p.py:
//
//	""          the real code contradicts the statement of C20
//	"F6"        TruncateInBytes panics, input in the class n > 3, bytes > n, runes < n-3
//	"EMPTYANN"  commonAnnotations has extra pairs with the empty value (see emptyGap)
//	"drift"     differs from Delivery.tla in something the statement does not fix
const (
	classF6       = "F6"
	classEmptyAnn = "EMPTYANN"
	classDrift    = "drift"
)

// ---------------------------------------------------------------- real objects

var (
	t0     = time.Date(2000, 1, 1, 0, 0, 0, 0, time.UTC)
	tPast  = time.Date(2000, 1, 1, 1, 0, 0, 0, time.UTC)
	tFut   = time.Date(2200, 1, 1, 0, 0, 0, 0, time.UTC)
	logger = promslog.NewNopLogger()
)

func realAlerts(as []alertJ) []*types.Alert {
	out := make([]*types.Alert, 0, len(as))
	for _, a := range as {
		ra := &types.Alert{UpdatedAt: t0}
		ra.Labels = model.LabelSet{}
		for k, v := range a.L {
			ra.Labels[model.LabelName(k)] = model.LabelValue(v)
		}
		ra.Annotations = model.LabelSet{}
		for k, v := range a.A {
			ra.Annotations[model.LabelName(k)] = model.LabelValue(v)
		}
		ra.StartsAt = t0
		switch a.End {
		case "past":
			ra.EndsAt = tPast
		case "future":
			ra.EndsAt = tFut
		case "tpast": // no end from the client: the API set it from resolve_timeout, and it has passed
			ra.EndsAt = tPast
			ra.Timeout = true
		case "tfuture": // .. and it is still ahead
			ra.EndsAt = tFut
			ra.Timeout = true
		case "none":
		default:
			panic("harness: unknown end kind " + a.End)
		}
		ra.GeneratorURL = "http://gen/x"
		out = append(out, ra)
	}
	return out
}

type sendResolved bool

func (s sendResolved) SendResolved() bool { return bool(s) }

// sink is the webhook endpoint: it keeps the bodies posted since the last reset.
type sink struct {
	mu     sync.Mutex
	bodies [][]byte
}

func (s *sink) ServeHTTP(w http.ResponseWriter, r *http.Request) {
	b, _ := io.ReadAll(r.Body)
	s.mu.Lock()
	s.bodies = append(s.bodies, b)
	s.mu.Unlock()
	w.WriteHeader(http.StatusOK)
}

func (s *sink) take() [][]byte {
	s.mu.Lock()
	defer s.mu.Unlock()
	b := s.bodies
	s.bodies = nil
	return b
}

type f6inst struct {
	S      string `json:"s"`
	Widths []int  `json:"widths"`
	Bytes  int    `json:"bytes"`
	Runes  int    `json:"runes"`
	N      int    `json:"n"`
	Panic  string `json:"panic"`
}

type rig struct {
	f6min   *f6inst // smallest input (bytes, then limit) on which TruncateInBytes panicked
	tmpl    *template.Template
	srv     *httptest.Server
	sink    *sink
	metrics *notify.Metrics
	stages  map[string]*notify.RetryStage
}

func newRig(t *testing.T) *rig {
	tmpl, err := template.FromGlobs(nil)
	if err != nil {
		t.Fatalf("template.FromGlobs: %v", err)
	}
	tmpl.ExternalURL, _ = url.Parse("http://am.example")
	sk := &sink{}
	return &rig{
		tmpl:    tmpl,
		sink:    sk,
		srv:     httptest.NewServer(sk),
		metrics: notify.NewMetrics(prometheus.NewRegistry(), featurecontrol.NoopFlags{}),
		stages:  map[string]*notify.RetryStage{},
	}
}

// stage is the real webhook notifier (max_alerts = max) wrapped as an integration with the
// given send_resolved inside the real retry stage.
func (r *rig) stage(t *testing.T, max int, sr bool) *notify.RetryStage {
	key := fmt.Sprintf("%d/%v", max, sr)
	if s, ok := r.stages[key]; ok {
		return s
	}
	conf := &webhook.WebhookConfig{
		NotifierConfig: amcommoncfg.NotifierConfig{VSendResolved: sr},
		HTTPConfig:     &commoncfg.HTTPClientConfig{},
		URL:            amcommoncfg.SecretTemplateURL(r.srv.URL + "/hook"),
		MaxAlerts:      uint64(max),
	}
	n, err := webhook.New(conf, r.tmpl, logger)
	if err != nil {
		t.Fatalf("webhook.New: %v", err)
	}
	integ := notify.NewIntegration(n, sendResolved(conf.SendResolved()), "webhook", 0, "recv")
	s := notify.NewRetryStage(integ, "recv", r.metrics, eventrecorder.NopRecorder())
	r.stages[key] = s
	return s
}

// ---------------------------------------------------------------- comparison helpers

func kvOf(m template.KV) kv {
	out := kv{}
	for k, v := range m {
		out[k] = v
	}
	return out
}

func sameKV(a, b kv) bool {
	if len(a) != len(b) {
		return false
	}
	for k, v := range a {
		if w, ok := b[k]; !ok || w != v {
			return false
		}
	}
	return true
}

// emptyGap is the signature of the EMPTYANN class computed from the listed alerts and the
// observed result: every pair the code reports beyond the intersection has the empty value,
// is an annotation of the first listed alert, and is absent from at least one listed alert
// while no listed alert has the name with a non-empty value.
func emptyGap(listed []kv, want, got kv) bool {
	if len(listed) < 2 {
		return false
	}
	for k, v := range want {
		if w, ok := got[k]; !ok || w != v {
			return false // something common is missing: not this class
		}
	}
	extra := 0
	for k, v := range got {
		if _, ok := want[k]; ok {
			continue
		}
		extra++
		if v != "" {
			return false
		}
		if fv, ok := listed[0][k]; !ok || fv != "" {
			return false
		}
		absent := false
		for _, l := range listed {
			lv, ok := l[k]
			if !ok {
				absent = true
			} else if lv != "" {
				return false
			}
		}
		if !absent {
			return false
		}
	}
	return extra > 0
}

type alertView struct {
	Status      string    `json:"status"`
	Labels      kv        `json:"labels"`
	Annotations kv        `json:"annotations"`
	EndsAt      time.Time `json:"endsAt"`
}

type dataView struct {
	Status            string      `json:"status"`
	Alerts            []alertView `json:"alerts"`
	Firing            []alertView `json:"firing,omitempty"`
	Resolved          []alertView `json:"resolved,omitempty"`
	GroupLabels       kv          `json:"groupLabels"`
	CommonLabels      kv          `json:"commonLabels"`
	CommonAnnotations kv          `json:"commonAnnotations"`
	Receiver          string      `json:"receiver"`
	TruncatedAlerts   *int        `json:"truncatedAlerts,omitempty"`
	GroupKey          string      `json:"groupKey,omitempty"`
	Version           string      `json:"version,omitempty"`
}

func viewAlerts(as []template.Alert) []alertView {
	out := make([]alertView, 0, len(as))
	for _, a := range as {
		out = append(out, alertView{Status: a.Status, Labels: kvOf(a.Labels), Annotations: kvOf(a.Annotations), EndsAt: a.EndsAt})
	}
	return out
}

func viewOfData(d *template.Data) dataView {
	return dataView{
		Status:            d.Status,
		Alerts:            viewAlerts(d.Alerts),
		Firing:            viewAlerts(d.Alerts.Firing()),
		Resolved:          viewAlerts(d.Alerts.Resolved()),
		GroupLabels:       kvOf(d.GroupLabels),
		CommonLabels:      kvOf(d.CommonLabels),
		CommonAnnotations: kvOf(d.CommonAnnotations),
		Receiver:          d.Receiver,
	}
}

// wantAlert is alert i (1-based) of the batch as the payload must list it: status and shown
// end come from the TLC output (Delivery!AlertStatus, ExposedEnd).
func wantAlert(c *tcase, i int) alertView {
	a := c.Alerts[i-1]
	st := c.Sts[i-1]
	l, an := kv{}, kv{}
	for k, v := range a.L {
		l[k] = v
	}
	for k, v := range a.A {
		an[k] = v
	}
	v := alertView{Status: st, Labels: l, Annotations: an}
	if c.Ends[i-1] == "end" {
		v.EndsAt = tPast
	}
	return v
}

func pickAlerts(c *tcase, idx []int) []alertView {
	out := make([]alertView, 0, len(idx))
	for _, i := range idx {
		out = append(out, wantAlert(c, i))
	}
	return out
}

// sameEnds: the end time shown per listed alert (judged apart from sameAlerts: what a firing
// alert shows is not fixed by the statement).
func sameEnds(a, b []alertView) bool {
	if len(a) != len(b) {
		return true // reported by sameAlerts
	}
	for i := range a {
		if !a[i].EndsAt.Equal(b[i].EndsAt) {
			return false
		}
	}
	return true
}

func sameAlerts(a, b []alertView) bool {
	if len(a) != len(b) {
		return false
	}
	for i := range a {
		if a[i].Status != b[i].Status || !sameKV(a[i].Labels, b[i].Labels) || !sameKV(a[i].Annotations, b[i].Annotations) {
			return false
		}
	}
	return true
}

type judge struct {
	res *hx.Result
	ci  int
	raw []byte
}

// add records a mismatch.  hx.Result keeps the first 50 only: of every class other than
// "" (violation of the statement) only the first few are kept, the rest is counted, so that
// violations are never crowded out by known classes.
func (j *judge) add(step int, class, what string, want, got any) {
	name := class
	if name == "" {
		name = "violation"
	}
	j.res.Count("mismatch_"+name, 1)
	if class != "" {
		if j.res.Counters["mismatch_"+name] > 4 {
			return
		}
	}
	j.res.Add(hx.Mismatch{Case: j.ci, Step: step, What: what, Want: want, Got: got, Class: class, Replay: json.RawMessage(j.raw)})
}

// compareData judges one payload (what: "template" | "webhook") against the expectation.
// partitions: whether got carries Firing()/Resolved() (template data only).
func (j *judge) compareData(step int, what string, c *tcase, exp *dataExp, got dataView, partitions bool) {
	if got.Status != exp.Status {
		j.add(step, "", what+": status is not 'firing iff a listed alert fires'", exp.Status, got.Status)
	}
	wantList := pickAlerts(c, exp.Idx)
	if !sameAlerts(wantList, got.Alerts) {
		j.add(step, "", what+": listed alerts differ from the alerts of the batch (send_resolved / max_alerts applied, order kept; status of every alert)", wantList, got.Alerts)
	} else if !sameEnds(wantList, got.Alerts) {
		j.add(step, classDrift, what+": end time shown for a listed alert (its end when resolved, zero when firing)", wantList, got.Alerts)
	}
	if partitions {
		if w := pickAlerts(c, exp.Firing); !sameAlerts(w, got.Firing) {
			j.add(step, "", what+": Alerts.Firing() is not the firing listed alerts", w, got.Firing)
		}
		if w := pickAlerts(c, exp.Resolved); !sameAlerts(w, got.Resolved) {
			j.add(step, "", what+": Alerts.Resolved() is not the resolved listed alerts", w, got.Resolved)
		}
	}
	if !sameKV(exp.Cl, got.CommonLabels) {
		j.add(step, "", what+": commonLabels is not the intersection of the listed alerts' labels", exp.Cl, got.CommonLabels)
	}
	if !sameKV(exp.Ca, got.CommonAnnotations) {
		listed := make([]kv, 0, len(exp.Idx))
		for _, i := range exp.Idx {
			listed = append(listed, c.Alerts[i-1].A)
		}
		class := ""
		if exp.Gapa && sameKV(exp.Ica, got.CommonAnnotations) && emptyGap(listed, exp.Ca, got.CommonAnnotations) {
			class = classEmptyAnn
		}
		j.add(step, class, what+": commonAnnotations is not the intersection of the listed alerts' annotations", exp.Ca, got.CommonAnnotations)
	} else if exp.Gapa {
		j.res.Count("emptyann_class_conforming", 1)
	}
	if !sameKV(exp.Gl, got.GroupLabels) {
		j.add(step, classDrift, what+": groupLabels not passed through", exp.Gl, got.GroupLabels)
	}
	if got.Receiver != "recv" {
		j.add(step, classDrift, what+": receiver name", "recv", got.Receiver)
	}
}

func (r *rig) batch(t *testing.T, j *judge, c *tcase) {
	res := j.res
	alerts := realAlerts(c.Alerts)
	gl := model.LabelSet{}
	for k, v := range c.Gl {
		gl[model.LabelName(k)] = model.LabelValue(v)
	}
	var firing, resolved []uint64
	for i, a := range alerts { // as the dedup stage splits the batch
		if a.Resolved() {
			resolved = append(resolved, uint64(i+1))
		} else {
			firing = append(firing, uint64(i+1))
		}
	}
	ctx, cancel := context.WithTimeout(context.Background(), 20*time.Second)
	defer cancel()
	ctx = notify.WithReceiverName(ctx, "recv")
	ctx = notify.WithGroupKey(ctx, "{}:{a=\"x\"}")
	ctx = notify.WithGroupLabels(ctx, gl)
	ctx = notify.WithNotificationReason(ctx, notify.ReasonFirstNotification)
	ctx = notify.WithNow(ctx, time.Now())
	ctx = notify.WithFiringAlerts(ctx, firing)
	ctx = notify.WithResolvedAlerts(ctx, resolved)
	ctx = notify.WithRepeatInterval(ctx, time.Hour)

	// 1. the data handed to templates for the whole batch
	func() {
		defer func() {
			if p := recover(); p != nil {
				j.add(1, "", "notify.GetTemplateData panics", nil, fmt.Sprint(p))
			}
		}()
		d := notify.GetTemplateData(ctx, r.tmpl, alerts, logger)
		j.compareData(1, "template data", c, c.Td, viewOfData(d), true)
		res.Count("template_data", 1)
	}()

	// 2. what the webhook integration posts behind the retry stage
	st := r.stage(t, c.Max, c.Sr)
	r.sink.take()
	var (
		err error
		pan any
	)
	func() {
		defer func() { pan = recover() }()
		_, _, err = st.Exec(ctx, logger, alerts...)
	}()
	bodies := r.sink.take()
	if pan != nil {
		j.add(2, "", "RetryStage/webhook Notify panics", nil, fmt.Sprint(pan))
		return
	}
	if err != nil {
		// the endpoint always answers 200: an error is a harness problem, not a verdict
		t.Fatalf("case %d: retry stage failed: %v", j.ci, err)
	}
	if !c.Wh.Sent {
		if len(bodies) != 0 {
			j.add(2, "", "webhook: a notification was posted although send_resolved is off and no alert fires", 0, len(bodies))
		}
		res.Count("webhook_not_sent", 1)
		return
	}
	if len(bodies) != 1 {
		j.add(2, "", "webhook: number of posts for one successful delivery", 1, len(bodies))
		return
	}
	res.Count("webhook_posts", 1)
	var got dataView
	if e := json.Unmarshal(bodies[0], &got); e != nil {
		j.add(2, "", "webhook: body is not JSON: "+e.Error(), nil, string(bodies[0]))
		return
	}
	j.compareData(2, "webhook", c, &c.Wh.Data, got, false)
	if got.TruncatedAlerts == nil || *got.TruncatedAlerts != c.Wh.Dropped {
		j.add(2, "", "webhook: truncatedAlerts is not the number of alerts beyond max_alerts", c.Wh.Dropped, got.TruncatedAlerts)
	}
	if got.Version != "4" || got.GroupKey != "{}:{a=\"x\"}" {
		j.add(2, classDrift, "webhook: version / groupKey", "4 {}:{a=\"x\"}", got.Version+" "+got.GroupKey)
	}
	if c.Wh.Dropped > 0 {
		res.Count("webhook_truncated", 1)
	}
	if !c.Sr && len(c.Wh.Data.Idx) < len(c.Alerts) {
		res.Count("webhook_resolved_dropped", 1)
	}
}

func nontrivialBatch(c *tcase) bool {
	// the summary is not a copy of one alert: at least two listed alerts which differ, and
	// either something is common or the statuses are mixed
	d := c.Td
	if len(d.Idx) < 2 {
		return false
	}
	differ := false
	for _, a := range c.Alerts[1:] {
		if !sameKV(a.L, c.Alerts[0].L) || !sameKV(a.A, c.Alerts[0].A) {
			differ = true
		}
	}
	return differ && (len(d.Cl)+len(d.Ca) > 0 || (len(d.Firing) > 0 && len(d.Resolved) > 0))
}

// ---------------------------------------------------------------- strings

var glyphs = [5][]rune{
	nil,
	[]rune("abcdefghijklmnopqrstuvwxyz"),
	[]rune("éöñßΩж"),
	[]rune("€‱✓中あ"),
	[]rune("😀🚀𝄞🜁"),
}

func realString(ws []int) string {
	var b strings.Builder
	for i, w := range ws {
		g := glyphs[w]
		b.WriteRune(g[i%len(g)])
	}
	return b.String()
}

const marker = "…"

// decompose splits a truncation result into (kept prefix, ellipsis?, dots).
func decompose(out string) (string, bool, int) {
	if strings.HasSuffix(out, marker) {
		return strings.TrimSuffix(out, marker), true, 0
	}
	rest := strings.TrimRight(out, ".")
	return rest, false, len(out) - len(rest)
}

type truncFn func(string, int) (string, bool)

func call(f truncFn, s string, n int) (out string, tr bool, pan any) {
	defer func() { pan = recover() }()
	out, tr = f(s, n)
	return out, tr, nil
}

// laws judges one result of a truncation function; size measures a string in the unit of
// the limit.  Returns false when a law of the statement fails.
func (j *judge) laws(step int, name, s string, n int, out string, tr bool, size func(string) int, dotsOK bool, exp truncExp) {
	in := map[string]any{"s": s, "n": n}
	got := map[string]any{"out": out, "truncated": tr}
	ok := true
	if size(out) > n {
		j.add(step, "", name+": result exceeds the limit", in, got)
		ok = false
	}
	if !utf8.ValidString(out) {
		j.add(step, "", name+": result is not valid UTF-8 (a character was split)", in, got)
		ok = false
	}
	rest, ell, dots := decompose(out)
	if !strings.HasPrefix(s, rest) || !utf8.ValidString(rest) || (dots > 0 && !dotsOK) {
		j.add(step, "", name+": result is not a prefix of the input followed by at most the truncation marker", in, got)
		ok = false
	}
	fits := size(s) <= n
	if tr != !fits || (fits && out != s) {
		j.add(step, "", name+": truncated flag / untouched short input", map[string]any{"s": s, "n": n, "fits": fits}, got)
		ok = false
	}
	if !ok {
		return
	}
	k := utf8.RuneCountInString(rest)
	if k != exp.K || len(rest) != exp.Kb || ell != exp.Ell || dots != exp.Dots || tr != exp.Trunc {
		j.add(step, classDrift, name+": within the laws but not the documented result (Delivery.tla)", exp, map[string]any{"out": out, "k": k, "ell": ell, "dots": dots, "truncated": tr, "s": s, "n": n})
	}
}

func (r *rig) str(j *judge, c *tcase) (evals, truncated int) {
	s := realString(c.W)
	if len(s) != c.Bytes || !utf8.ValidString(s) {
		panic("harness: glyph table does not match the widths")
	}
	runes := utf8.RuneCountInString(s)
	for i, e := range c.E {
		n := e.N
		out, tr, pan := call(notify.TruncateInRunes, s, n)
		if pan != nil {
			j.add(i, "", "TruncateInRunes panics", map[string]any{"s": s, "n": n}, fmt.Sprint(pan))
		} else {
			j.laws(i, "TruncateInRunes", s, n, out, tr, utf8.RuneCountInString, false, e.R)
		}
		out, tr, pan = call(notify.TruncateInBytes, s, n)
		inF6 := n > 3 && len(s) > n && runes < n-3 // the class, computed from the input
		if inF6 != e.Gap {
			panic("harness: F6 class differs from the model's F6Gap")
		}
		if pan != nil {
			class := ""
			if inF6 && strings.Contains(fmt.Sprint(pan), "slice bounds out of range") {
				class = classF6
				j.res.Count("f6_panics", 1)
				if r.f6min == nil || len(s) < r.f6min.Bytes || (len(s) == r.f6min.Bytes && n < r.f6min.N) {
					r.f6min = &f6inst{S: s, Widths: c.W, Bytes: len(s), Runes: runes, N: n, Panic: fmt.Sprint(pan)}
				}
			}
			j.add(i, class, "TruncateInBytes panics", map[string]any{"s": s, "n": n, "runes": runes, "bytes": len(s), "widths": c.W}, fmt.Sprint(pan))
		} else {
			if inF6 {
				j.res.Count("f6_class_no_panic", 1)
			}
			j.laws(i, "TruncateInBytes", s, n, out, tr, func(x string) int { return len(x) }, n < 3, e.B)
		}
		evals += 2
		if e.R.Trunc || e.B.Trunc {
			truncated++
		}
	}
	return evals, truncated
}

// ---------------------------------------------------------------- TestReplay

func TestReplay(t *testing.T) {
	if *hx.In == "" {
		t.Skip("no -in")
	}
	res := hx.NewResult()
	r := newRig(t)
	defer r.srv.Close()
	seenB, seenS := 0, 0
	err := hx.Lines(*hx.In, func(li int, line []byte) error {
		var cases []json.RawMessage
		if e := json.Unmarshal(line, &cases); e != nil {
			return fmt.Errorf("line %d: %v", li, e)
		}
		for _, raw := range cases {
			var c tcase
			if e := json.Unmarshal(raw, &c); e != nil {
				return fmt.Errorf("line %d: %v: %s", li, e, string(raw[:min(len(raw), 200)]))
			}
			j := &judge{res: res, ci: res.Cases, raw: raw}
			res.Cases++
			switch c.K {
			case "batch":
				if c.Td == nil || c.Wh == nil || len(c.Sts) != len(c.Alerts) || len(c.Ends) != len(c.Alerts) {
					return fmt.Errorf("line %d: batch case without expectation", li)
				}
				for _, a := range c.Alerts {
					if a.End == "tpast" || a.End == "tfuture" {
						res.Count("batches_with_timed_out_alert", 1)
						break
					}
				}
				r.batch(t, j, &c)
				res.Count("batches", 1)
				res.Steps += 2
				if nontrivialBatch(&c) {
					res.Nontrivial++
					res.Count("batches_nontrivial", 1)
				}
				if c.Td.Gapa || c.Wh.Data.Gapa {
					res.Count("batches_in_emptyann_class", 1)
				}
				if seenB < 2 && nontrivialBatch(&c) && c.Wh.Dropped > 0 {
					seenB++
					res.Sample(raw)
				}
			case "str":
				ev, tr := r.str(j, &c)
				res.Count("strings", 1)
				res.Count("string_evaluations", ev)
				res.Steps += ev
				if tr > 0 {
					res.Nontrivial++
					res.Count("strings_truncated", 1)
				}
				if seenS < 1 && len(c.W) >= 3 && len(raw) < 4000 {
					seenS++
					res.Sample(raw)
				}
			default:
				return fmt.Errorf("line %d: unknown case kind %q", li, c.K)
			}
		}
		return nil
	})
	if err != nil {
		t.Fatal(err)
	}
	if r.f6min != nil {
		res.Notes = append(res.Notes, "f6_smallest "+string(hx.J(r.f6min)))
	}
	if e := res.Write(); e != nil {
		t.Fatal(e)
	}
}
