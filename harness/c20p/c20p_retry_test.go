// Conformance harness for the retry half of C20 for ONE integration (spec/DeliveryRetry.tla):
// replays the deliveries printed by TLC from spec/mc/Gen_DeliveryRetry.tla on the REAL
// notifier (notify/webhook, notify/pagerduty) behind the REAL notify.RetryStage followed by
// the REAL notify.SetNotifiesStage writing to a REAL nflog.Log, against an httptest server
// on loopback that is scripted per attempt (2xx, slow 2xx, 4xx, 429, 5xx, connection
// refused / reset, an answer later than the notifier's own timeout, no answer before the
// flush is over).  Real time: notifier timeout 300 ms, flush deadlines 0.45 - 2.9 s (all
// numbers come from the TLC output), many deliveries run concurrently, launches staggered.
//
// What is observed: every Integration.Notify call (a recording wrapper around the real
// notifier: begin, end, retry flag, error, state of the flush context), what the endpoint
// saw per connection, the error and the instant at which the stages return, the writes to
// the notification log.  What is judged: the clauses of DeliveryRetry.tla over the OBSERVED
// run (what happened in an attempt is derived from the observations, not from the script),
// with a tolerance of tolMs for every upper bound (100 ms for the lower bound of a back-off
// gap, judged from the 4th gap on).  A candidate violation is re-run twice and is
// reported only when it shows every time.
package c20p

import (
	"context"
	"encoding/json"
	"fmt"
	"io"
	"math/rand"
	"net"
	"net/http"
	"net/http/httptest"
	"net/url"
	"os"
	"regexp"
	"sort"
	"strconv"
	"strings"
	"sync"
	"sync/atomic"
	"syscall"
	"testing"
	"time"

	"github.com/prometheus/client_golang/prometheus"
	commoncfg "github.com/prometheus/common/config"
	"github.com/prometheus/common/model"

	amcommoncfg "github.com/prometheus/alertmanager/config/common"
	"github.com/prometheus/alertmanager/eventrecorder"
	"github.com/prometheus/alertmanager/featurecontrol"
	"github.com/prometheus/alertmanager/nflog"
	"github.com/prometheus/alertmanager/nflog/nflogpb"
	"github.com/prometheus/alertmanager/notify"
	"github.com/prometheus/alertmanager/notify/pagerduty"
	"github.com/prometheus/alertmanager/notify/webhook"
	"github.com/prometheus/alertmanager/template"
	"github.com/prometheus/alertmanager/types"

	"verif/harness/hx"
)

// ---------------------------------------------------------------- model values

type stepExp struct {
	O   string `json:"o"`
	Why string `json:"why"`
	Sc  string `json:"sc"`
	Ic  string `json:"ic"`
	Dur int    `json:"dur"`
}

type rcase struct {
	K       string            `json:"k"`
	Nt      string            `json:"nt"`
	Script  []string          `json:"script"`
	To      bool              `json:"to"`
	Dl      int               `json:"dl"`
	Cancel  int               `json:"cancel"`
	Timeout int               `json:"timeout"`
	Slow    int               `json:"slow"`
	Hang    int               `json:"hang"`
	Hi      []int             `json:"hi"`
	Lo      []int             `json:"lo"`
	LoFrom  int               `json:"lofrom"` // gaps from this one on are judged against lo (earlier ones: drift)
	Sclass  map[string]string `json:"sclass"`
	Iclass  map[string]string `json:"iclass"`
	Exp     struct {
		Steps  []stepExp `json:"steps"`
		Min    int       `json:"min"`
		Max    int       `json:"max"`
		Finals []string  `json:"finals"`
	} `json:"exp"`
}

func (c *rcase) outcome(k int) string { // k = 1, 2, ..: the last element repeats
	if k > len(c.Script) {
		k = len(c.Script)
	}
	return c.Script[k-1]
}

func (c *rcase) step(k int) stepExp {
	if k > len(c.Exp.Steps) {
		k = len(c.Exp.Steps)
	}
	return c.Exp.Steps[k-1]
}

func at(tab []int, k int) time.Duration {
	if k > len(tab) {
		k = len(tab)
	}
	return time.Duration(tab[k-1]) * time.Millisecond
}

const tolDefaultMs = 500

// tolerance of the lower bound of a gap: the tick is consumed before the call is stamped
const lowTol = 100 * time.Millisecond

const maxRecorded = 40 // calls of Notify recorded per delivery

// the stages must have returned this long after the flush context is over
const noReturnAfter = 4 * time.Second

var tol = func() time.Duration {
	if s := os.Getenv("C20P_TOL_MS"); s != "" {
		if n, err := strconv.Atoi(s); err == nil && n > 0 {
			return time.Duration(n) * time.Millisecond
		}
	}
	return tolDefaultMs * time.Millisecond
}()

// ---------------------------------------------------------------- observations

type attObs struct {
	K        int    `json:"k"`
	O        string `json:"scripted"`
	StartMs  int64  `json:"start_ms"`
	EndMs    int64  `json:"end_ms"`
	Retry    bool   `json:"retry"`
	Err      string `json:"err"` // "" = nil
	CtxDone  bool   `json:"flush_ctx_done"`
	Dialed   string `json:"dialed,omitempty"` // srv | refused
	DialErr  string `json:"dial_err,omitempty"`
	SrvSeen  bool   `json:"endpoint_saw_request"`
	SrvAnsMs int64  `json:"endpoint_answered_ms,omitempty"`
	SrvCode  int    `json:"endpoint_status,omitempty"` // -1: connection reset by the endpoint
	Why      string `json:"why"`                       // what happened, derived from the above
	start    time.Duration
	end      time.Duration
}

type runObs struct {
	Attempts []*attObs `json:"attempts"`
	EndMs    int64     `json:"flush_over_ms"` // deadline or cancellation, whichever is first
	RetMs    int64     `json:"stage_returned_ms"`
	Err      string    `json:"stage_err"`
	LogMs    []int64   `json:"nflog_writes_ms"`
	Entries  int       `json:"nflog_entries"`
	NoReturn bool      `json:"stages_did_not_return,omitempty"`
	end      time.Duration
	ret      time.Duration
}

type caseState struct {
	c    *rcase
	id   int
	t0   time.Time
	mu   sync.Mutex
	atts []*attObs
	cur  int // attempt in progress (1-based), 0 before the first
	logs []time.Duration
	done chan struct{}
	var_ int // picks the status code variants
}

func (cs *caseState) since(t time.Time) time.Duration { return t.Sub(cs.t0) }

// recNotifier records every call of the real notifier.
type recNotifier struct {
	inner notify.Notifier
	cs    *caseState
}

func (r *recNotifier) Notify(ctx context.Context, alerts ...*types.Alert) (bool, error) {
	cs := r.cs
	cs.mu.Lock()
	if len(cs.atts) >= maxRecorded { // a loop that does not end: the first calls are enough to judge it
		cs.mu.Unlock()
		return r.inner.Notify(ctx, alerts...)
	}
	cs.cur++
	a := &attObs{K: cs.cur, O: cs.c.outcome(cs.cur), start: cs.since(time.Now())}
	cs.atts = append(cs.atts, a)
	cs.mu.Unlock()
	retry, err := r.inner.Notify(ctx, alerts...)
	end := cs.since(time.Now())
	cs.mu.Lock()
	a.end = end
	a.Retry = retry
	if err != nil {
		a.Err = err.Error()
		if a.Err == "" {
			a.Err = "(empty error text)"
		}
	}
	a.CtxDone = ctx.Err() != nil
	cs.mu.Unlock()
	return retry, err
}

// recLog is the real notification log; the instants of the writes are recorded per group key.
type recLog struct {
	real *nflog.Log
	env  *retryEnv
}

func (l *recLog) Query(params ...nflog.QueryParam) ([]*nflogpb.Entry, error) {
	return l.real.Query(params...)
}

func (l *recLog) Log(r *nflogpb.Receiver, gkey string, firing, resolved []uint64, store *nflog.Store, expiry time.Duration) error {
	if cs := l.env.byKey(gkey); cs != nil {
		cs.mu.Lock()
		cs.logs = append(cs.logs, cs.since(time.Now()))
		cs.mu.Unlock()
	}
	return l.real.Log(r, gkey, firing, resolved, store, expiry)
}

// ---------------------------------------------------------------- the endpoint

type retryEnv struct {
	t         *testing.T
	srv       *httptest.Server
	srvAddr   string
	refused   string // a bound, not listening port: connect => ECONNREFUSED
	refusedFd int
	tmpl      *template.Template
	metrics   *notify.Metrics
	nlog      *recLog
	cases     sync.Map // id -> *caseState
	keys      sync.Map // group key -> *caseState
	conns     sync.Map // client address of a connection -> attempt (connRef)
	nextID    atomic.Int64
}

type connRef struct {
	cs *caseState
	k  int
}

func (e *retryEnv) byKey(gkey string) *caseState {
	if v, ok := e.keys.Load(gkey); ok {
		return v.(*caseState)
	}
	return nil
}

func newRetryEnv(t *testing.T) *retryEnv {
	e := &retryEnv{t: t}
	tmpl, err := template.FromGlobs(nil)
	if err != nil {
		t.Fatalf("template.FromGlobs: %v", err)
	}
	tmpl.ExternalURL, _ = url.Parse("http://am.example")
	e.tmpl = tmpl
	e.metrics = notify.NewMetrics(prometheus.NewRegistry(), featurecontrol.NoopFlags{})
	nl, err := nflog.New(nflog.Options{Retention: time.Hour, Metrics: prometheus.NewRegistry()})
	if err != nil {
		t.Fatalf("nflog.New: %v", err)
	}
	e.nlog = &recLog{real: nl, env: e}
	e.srv = httptest.NewUnstartedServer(http.HandlerFunc(e.serve))
	e.srv.Config.ErrorLog = nil
	e.srv.Start()
	e.srvAddr = e.srv.Listener.Addr().String()
	// a TCP socket that is bound but does not listen: the port stays reserved and every
	// connection attempt is refused by the kernel
	fd, err := syscall.Socket(syscall.AF_INET, syscall.SOCK_STREAM, 0)
	if err != nil {
		t.Fatalf("socket: %v", err)
	}
	if err := syscall.Bind(fd, &syscall.SockaddrInet4{Port: 0, Addr: [4]byte{127, 0, 0, 1}}); err != nil {
		t.Fatalf("bind: %v", err)
	}
	sa, err := syscall.Getsockname(fd)
	if err != nil {
		t.Fatalf("getsockname: %v", err)
	}
	e.refusedFd = fd
	e.refused = fmt.Sprintf("127.0.0.1:%d", sa.(*syscall.SockaddrInet4).Port)
	return e
}

func (e *retryEnv) close() {
	e.srv.CloseClientConnections()
	e.srv.Close()
	syscall.Close(e.refusedFd)
}

var (
	codes4xx = []int{400, 404, 422}
	codes5xx = []int{500, 502, 503}
)

func (e *retryEnv) serve(w http.ResponseWriter, r *http.Request) {
	io.Copy(io.Discard, r.Body)
	v, ok := e.conns.Load(r.RemoteAddr)
	if !ok {
		w.WriteHeader(http.StatusTeapot)
		return
	}
	ref := v.(connRef)
	cs, k := ref.cs, ref.k
	c := cs.c
	var a *attObs
	cs.mu.Lock()
	if k >= 1 && k <= len(cs.atts) {
		a = cs.atts[k-1]
		a.SrvSeen = true
	}
	cs.mu.Unlock()
	answer := func(code int) {
		now := cs.since(time.Now())
		cs.mu.Lock()
		if a != nil {
			a.SrvCode = code
			a.SrvAnsMs = now.Milliseconds()
		}
		cs.mu.Unlock()
		if code > 0 {
			w.WriteHeader(code)
			if code != 200 {
				io.WriteString(w, "scripted "+strconv.Itoa(code))
			} else if c.Nt == "pagerduty" {
				io.WriteString(w, `{"status":"success"}`)
			}
		}
	}
	wait := func(ms int) bool { // false: the delivery is over before
		select {
		case <-time.After(time.Duration(ms) * time.Millisecond):
			return true
		case <-cs.done:
			return false
		}
	}
	switch o := c.outcome(k); o {
	case "ok":
		answer(200)
	case "slow":
		wait(c.Slow)
		answer(200)
	case "c4xx":
		answer(codes4xx[(cs.var_+k)%len(codes4xx)])
	case "c429":
		answer(429)
	case "c5xx":
		answer(codes5xx[(cs.var_+k)%len(codes5xx)])
	case "reset":
		hj, ok := w.(http.Hijacker)
		if !ok {
			panic("harness: no hijacker")
		}
		conn, _, err := hj.Hijack()
		if err != nil {
			return
		}
		answer(-1)
		if tc, ok := conn.(*net.TCPConn); ok {
			tc.SetLinger(0)
		}
		conn.Close()
	case "hangT":
		if wait(c.Hang) {
			answer(200)
		}
	case "hangD":
		<-cs.done
	default:
		panic("harness: unknown outcome " + o)
	}
}

// dialer of one delivery: keep-alives are off, so every attempt dials; an attempt whose
// scripted outcome is "refused" is sent to the port that refuses.
func (e *retryEnv) dialer(cs *caseState) commoncfg.DialContextFunc {
	d := &net.Dialer{}
	return func(ctx context.Context, network, addr string) (net.Conn, error) {
		cs.mu.Lock()
		k := cs.cur
		var a *attObs
		if k >= 1 && k <= len(cs.atts) {
			a = cs.atts[k-1]
		}
		cs.mu.Unlock()
		target, name := e.srvAddr, "srv"
		if k >= 1 && cs.c.outcome(k) == "refused" {
			target, name = e.refused, "refused"
		}
		conn, err := d.DialContext(ctx, "tcp4", target)
		cs.mu.Lock()
		if a != nil {
			a.Dialed = name
			if err != nil {
				a.DialErr = err.Error()
			}
		}
		cs.mu.Unlock()
		if err != nil {
			return nil, err
		}
		ref := connRef{cs, k}
		e.conns.Store(conn.LocalAddr().String(), ref)
		return &forgetConn{Conn: conn, env: e, key: conn.LocalAddr().String(), ref: ref}, nil
	}
}

type forgetConn struct {
	net.Conn
	env  *retryEnv
	key  string
	ref  connRef
	once sync.Once
}

func (f *forgetConn) Close() error {
	err := f.Conn.Close()
	// the endpoint may still look the connection up (the request is in flight): forget it later
	f.once.Do(func() { time.AfterFunc(5*time.Second, func() { f.env.conns.CompareAndDelete(f.key, f.ref) }) })
	return err
}

// ---------------------------------------------------------------- one delivery

func (e *retryEnv) notifier(cs *caseState) (notify.Notifier, error) {
	c := cs.c
	opts := []commoncfg.HTTPClientOption{commoncfg.WithDialContextFunc(e.dialer(cs)), commoncfg.WithKeepAlivesDisabled()}
	var timeout time.Duration
	if c.To {
		timeout = time.Duration(c.Timeout) * time.Millisecond
	}
	u := fmt.Sprintf("http://%s/c/%d", e.srvAddr, cs.id)
	switch c.Nt {
	case "webhook":
		return webhook.New(&webhook.WebhookConfig{
			NotifierConfig: amcommoncfg.NotifierConfig{VSendResolved: true},
			HTTPConfig:     &commoncfg.HTTPClientConfig{},
			URL:            amcommoncfg.SecretTemplateURL(u),
			Timeout:        timeout,
		}, e.tmpl, logger, opts...)
	case "pagerduty":
		return pagerduty.New(&pagerduty.PagerdutyConfig{
			NotifierConfig: amcommoncfg.NotifierConfig{VSendResolved: true},
			HTTPConfig:     &commoncfg.HTTPClientConfig{},
			RoutingKey:     "key",
			URL:            amcommoncfg.MustParseURL(u),
			Description:    "d",
			Timeout:        timeout,
		}, e.tmpl, logger, opts...)
	}
	return nil, fmt.Errorf("unknown notifier type %q", c.Nt)
}

func (e *retryEnv) run(c *rcase, variant int) (*runObs, error) {
	cs := &caseState{c: c, id: int(e.nextID.Add(1)), done: make(chan struct{}), var_: variant}
	gkey := fmt.Sprintf("{}:{case=\"%d\"}", cs.id)
	e.cases.Store(cs.id, cs)
	e.keys.Store(gkey, cs)
	defer func() {
		e.cases.Delete(cs.id)
		e.keys.Delete(gkey)
	}()
	n, err := e.notifier(cs)
	if err != nil {
		return nil, err
	}
	recv := &nflogpb.Receiver{GroupName: "recv", Integration: c.Nt, Idx: 0}
	integ := notify.NewIntegration(&recNotifier{inner: n, cs: cs}, sendResolved(true), c.Nt, 0, "recv")
	stages := notify.MultiStage{
		notify.NewRetryStage(integ, "recv", e.metrics, eventrecorder.NopRecorder()),
		notify.NewSetNotifiesStage(e.nlog, recv),
	}
	alerts := realAlerts([]alertJ{{L: kv{"alertname": "A", "case": strconv.Itoa(cs.id)}, A: kv{"s": "x"}, End: "none"}})

	parent, cancel := context.WithCancel(context.Background())
	defer cancel()
	cs.t0 = time.Now()
	ctx, cancel2 := context.WithDeadline(parent, cs.t0.Add(time.Duration(c.Dl)*time.Millisecond))
	defer cancel2()
	ctx = notify.WithReceiverName(ctx, "recv")
	ctx = notify.WithGroupKey(ctx, gkey)
	ctx = notify.WithGroupLabels(ctx, model.LabelSet{"case": model.LabelValue(strconv.Itoa(cs.id))})
	ctx = notify.WithNotificationReason(ctx, notify.ReasonFirstNotification)
	ctx = notify.WithNow(ctx, cs.t0)
	ctx = notify.WithFiringAlerts(ctx, []uint64{1})
	ctx = notify.WithResolvedAlerts(ctx, nil)
	ctx = notify.WithRepeatInterval(ctx, time.Hour)

	over := time.Duration(c.Dl) * time.Millisecond
	var cancelled atomic.Int64
	if c.Cancel > 0 {
		tm := time.AfterFunc(time.Duration(c.Cancel)*time.Millisecond, func() {
			cancelled.Store(int64(cs.since(time.Now()))) // the reload: just before the context is cancelled
			cancel()
		})
		defer tm.Stop()
	}
	var (
		serr     error
		pan      any
		returned = make(chan struct{})
		noReturn bool
	)
	go func() {
		defer close(returned)
		defer func() { pan = recover() }()
		_, _, serr = stages.Exec(ctx, logger, alerts...)
	}()
	select {
	case <-returned:
	case <-time.After(over + noReturnAfter):
		// the stages are still running long after the flush context is over: abandoned (judged as such)
		noReturn = true
	}
	ret := cs.since(time.Now())
	close(cs.done)
	var stageErr error
	if noReturn {
		cancel()
		stageErr = fmt.Errorf("(harness) the stages had not returned %s after the flush context was over", noReturnAfter)
	} else {
		if pan != nil {
			return nil, fmt.Errorf("stages panic: %v", pan)
		}
		stageErr = serr
	}
	if c.Cancel > 0 {
		// the instant of the reload: as recorded just before the context was cancelled, or, when the
		// stages returned before, the instant planned for it
		planned := time.Duration(c.Cancel) * time.Millisecond
		if v := time.Duration(cancelled.Load()); v > 0 {
			planned = v
		}
		if planned < over {
			over = planned
		}
	}
	entries, qerr := e.nlog.Query(nflog.QGroupKey(gkey), nflog.QReceiver(recv))
	if qerr != nil && qerr != nflog.ErrNotFound {
		return nil, fmt.Errorf("nflog query: %v", qerr)
	}
	cs.mu.Lock()
	defer cs.mu.Unlock()
	atts := make([]*attObs, 0, len(cs.atts)) // copies: abandoned stages may still be running
	for _, a := range cs.atts {
		cp := *a
		if cp.end == 0 && cp.Err == "" && noReturn {
			cp.end, cp.Err, cp.CtxDone = ret, "(harness) attempt still in progress", true
		}
		atts = append(atts, &cp)
	}
	o := &runObs{Attempts: atts, NoReturn: noReturn, end: over, ret: ret, EndMs: over.Milliseconds(), RetMs: ret.Milliseconds(), Entries: len(entries)}
	if stageErr != nil {
		o.Err = stageErr.Error()
	}
	for _, l := range cs.logs {
		o.LogMs = append(o.LogMs, l.Milliseconds())
	}
	for _, a := range o.Attempts {
		a.StartMs, a.EndMs = a.start.Milliseconds(), a.end.Milliseconds()
	}
	return o, nil
}

// ---------------------------------------------------------------- judging one observed run

type finding struct {
	Class string // "" violation | drift
	Name  string
	Text  string
}

type verdict struct {
	findings     []finding
	unexplained  []string // the observations do not tell what happened in an attempt: not judged
	offnominal   int      // attempts in which something else happened than scripted (load)
	obligations  int      // recoverable failures after which another attempt was due
	lowJudged    int      // gaps judged against the lower bound of the back-off
	whys         map[string]int
	outsideModel bool // number of attempts / result not among the runs of the specification
}

var reAttempts = regexp.MustCompile(`after (\d+) attempts`)

// whyOf derives what happened in an attempt (the `why` of DeliveryRetry.tla) from the
// observations; "" when they do not tell.
func whyOf(c *rcase, a *attObs) string {
	twoxx := a.SrvCode/100 == 2
	if a.Err == "" {
		if twoxx {
			return "2xx"
		}
		return "" // success claimed: judged by the caller
	}
	if a.CtxDone {
		return "cut"
	}
	if a.DialErr != "" {
		return "conn"
	}
	if a.SrvCode == -1 {
		return "conn"
	}
	if c.To && a.end-a.start >= time.Duration(c.Timeout)*time.Millisecond-15*time.Millisecond {
		return "timeout"
	}
	switch {
	case a.SrvCode == 429:
		return "429"
	case a.SrvCode/100 == 4:
		return "4xx"
	case a.SrvCode/100 == 5:
		return "5xx"
	}
	return ""
}

func judgeRun(c *rcase, o *runObs) *verdict {
	v := &verdict{whys: map[string]int{}}
	add := func(class, name, format string, args ...any) {
		v.findings = append(v.findings, finding{class, name, fmt.Sprintf(format, args...)})
	}
	ms := func(d time.Duration) string { return fmt.Sprintf("+%dms", d.Milliseconds()) }
	n := len(o.Attempts)
	succeeded := false
	nominal := true
	for i, a := range o.Attempts {
		k := i + 1
		last := k == n
		if a.Err == "" && a.SrvCode/100 != 2 {
			// the notifier reports success although the endpoint did not answer 2xx to this attempt
			if a.SrvCode != 0 || a.Dialed == "refused" {
				add("", "failure_reported_as_success", "attempt %d: the endpoint answered %d (%s) but the notifier reported success: the failed delivery is not retried", k, a.SrvCode, a.O)
				a.Why = "bogus-success"
				succeeded = true // as the stages see it
				continue
			}
			v.unexplained = append(v.unexplained, fmt.Sprintf("attempt %d: success without an answer of the endpoint", k))
			a.Why = "?"
			return v
		}
		a.Why = whyOf(c, a)
		if a.Why == "" {
			a.Why = "?"
			v.unexplained = append(v.unexplained, fmt.Sprintf("attempt %d (%s): retry=%v err=%q, endpoint status %d, dial error %q", k, a.O, a.Retry, a.Err, a.SrvCode, a.DialErr))
			return v
		}
		v.whys[a.Why]++
		if a.Why != "cut" && a.Why != c.step(k).Why {
			v.offnominal++
			nominal = false
		}
		sc := c.Sclass[a.Why]
		if a.start > o.end+tol {
			add("", "attempt_after_flush_over", "attempt %d begins at %s, the flush context was over at %s", k, ms(a.start), ms(o.end))
		}
		switch sc {
		case "ok":
			succeeded = true
			if !last {
				add("", "attempt_after_success", "attempt %d succeeded (2xx at %s) and is followed by attempt %d at %s", k, ms(a.end), k+1, ms(o.Attempts[k].start))
			}
		case "unrec":
			if !last {
				add("", "retry_after_unrecoverable", "attempt %d failed with %d (unrecoverable) and is followed by attempt %d at %s (notifier: retry=%v)", k, a.SrvCode, k+1, ms(o.Attempts[k].start), a.Retry)
			} else if a.Retry {
				add("drift", "unrecoverable_flagged_retry", "attempt %d failed with %d and the notifier returned retry=true (no further attempt was made)", k, a.SrvCode)
			}
		case "rec":
			hi := at(c.Hi, k)
			due := a.end + hi + tol
			if due < o.end {
				v.obligations++
				if last {
					add("", "not_retried_until_deadline",
						"attempt %d failed recoverably (%s: retry=%v err=%q) at %s; back-off bound %dms, flush over only at %s (%s, cancel %dms): no further attempt; the stages returned at %s with %q",
						k, a.Why, a.Retry, a.Err, ms(a.end), hi.Milliseconds(), ms(o.end), fmt.Sprintf("deadline %dms", c.Dl), c.Cancel, ms(o.ret), o.Err)
				} else if nx := o.Attempts[k]; nx.start > due {
					add("", "retry_too_late", "attempt %d failed recoverably (%s) at %s, attempt %d begins only at %s: later than the bound %dms + tolerance %dms",
						k, a.Why, ms(a.end), k+1, ms(nx.start), hi.Milliseconds(), tol.Milliseconds())
				}
			} else if last && !a.Retry && o.ret < o.end-20*time.Millisecond {
				add("drift", "gave_up_early", "attempt %d failed recoverably (%s) at %s, the notifier returned retry=false and the stages returned at %s, before the flush was over (%s); no retry was due for certain",
					k, a.Why, ms(a.end), ms(o.ret), ms(o.end))
			}
			if !last {
				// "with backoff": the k-th gap is never below the back-off's lower bound (counted from the
				// start of the failed attempt; the tick is consumed just before the call is stamped)
				nx := o.Attempts[k]
				if c.LoFrom > 0 && k >= c.LoFrom {
					v.lowJudged++
				}
				if nx.start < a.start+at(c.Lo, k)-lowTol {
					class := "drift"
					if c.LoFrom > 0 && k >= c.LoFrom {
						class = ""
					}
					add(class, "gap_below_backoff", "attempt %d (the %d. consecutive failure) began at %s, attempt %d already at %s: gap %dms, the back-off after %d failures is at least %dms (0.5 x 500ms x 1.5^%d)",
						k, k, ms(a.start), k+1, ms(nx.start), (nx.start - a.start).Milliseconds(), k, at(c.Lo, k).Milliseconds(), k-1)
				}
			}
		case "open": // 429: the statement does not decide; compare with the notifier's rule
			ic := c.Iclass[a.Why]
			if (ic == "rec") != a.Retry {
				add("drift", "class_429", "attempt %d: 429, notifier returned retry=%v, DeliveryRetry.tla (Retrier.RetryCodes of %s) says %s", k, a.Retry, c.Nt, ic)
			}
			if !a.Retry && !last {
				add("", "retry_after_unrecoverable", "attempt %d: the notifier reported 429 as unrecoverable (retry=false) and attempt %d follows at %s", k, k+1, ms(o.Attempts[k].start))
			}
		case "cut":
			if !last && o.Attempts[k].start > o.end+tol {
				// reported by attempt_after_flush_over of the next attempt
				_ = k
			}
		default:
			v.unexplained = append(v.unexplained, "no class for "+a.Why)
			return v
		}
	}
	// the result the stages report
	if o.Err == "" && !succeeded {
		add("", "failure_not_reported", "no attempt succeeded (%d attempts) but the stages returned no error", n)
	}
	if o.Err != "" && succeeded {
		add("drift", "success_reported_as_failure", "an attempt succeeded but the stages returned %q", o.Err)
	}
	// the notification log
	nlog := len(o.LogMs)
	if !succeeded && (nlog > 0 || o.Entries > 0) {
		add("", "recorded_without_success", "no attempt succeeded but the notification log has %d write(s), %d entr(y/ies) for the group", nlog, o.Entries)
	}
	if succeeded && o.Err == "" {
		if nlog == 0 || o.Entries == 0 {
			add("", "success_not_recorded", "attempt %d succeeded and the stages returned no error, but the notification log has %d write(s), %d entr(y/ies)", n, nlog, o.Entries)
		} else if nlog > 1 {
			add("", "recorded_twice", "one successful delivery, %d writes to the notification log", nlog)
		} else if n > 0 && time.Duration(o.LogMs[0])*time.Millisecond < o.Attempts[n-1].end-2*time.Millisecond {
			add("", "recorded_before_success", "log write at +%dms, the successful attempt ended at %s", o.LogMs[0], ms(o.Attempts[n-1].end))
		}
	}
	// when the stages return
	if o.NoReturn {
		add("", "no_return_after_flush_over", "the flush context was over at %s, the stages had not returned at %s (%d calls of Notify so far): the flush never reports the failure", ms(o.end), ms(o.ret), n)
	} else if o.ret > o.end+2*time.Second {
		add("", "no_return_after_flush_over", "the flush context was over at %s, the stages returned only at %s", ms(o.end), ms(o.ret))
	}
	if n > 0 {
		la := o.Attempts[n-1]
		if sc := c.Sclass[la.Why]; (sc == "ok" || sc == "unrec") && o.ret > la.end+tol {
			add("drift", "late_return", "last attempt (%s) ended at %s, the stages returned at %s", la.Why, ms(la.end), ms(o.ret))
		}
	}
	if m := reAttempts.FindStringSubmatch(o.Err); m != nil {
		if x, _ := strconv.Atoi(m[1]); x != n {
			add("drift", "attempt_count_in_error", "error says %q, %d calls of Notify observed", o.Err, n)
		}
	}
	// against the runs of the specification (nominal timing only)
	final := "ended"
	if succeeded {
		final = "ok"
	} else if n > 0 && o.ret < o.end-20*time.Millisecond {
		final = "unrec"
	}
	inFinals := false
	for _, f := range c.Exp.Finals {
		if f == final {
			inFinals = true
		}
	}
	if nominal && len(v.findings) == 0 && (n < c.Exp.Min || n > c.Exp.Max || !inFinals) {
		v.outsideModel = true
	}
	return v
}

// ---------------------------------------------------------------- TestRetryReplay

type retryItem struct {
	raw json.RawMessage
	c   *rcase
	obs *runObs
	v   *verdict
	err error
}

func (e *retryEnv) wave(items []*retryItem, window time.Duration, rng *rand.Rand) {
	var wg sync.WaitGroup
	gap := time.Duration(0)
	if len(items) > 1 {
		gap = window / time.Duration(len(items))
	}
	start := time.Now()
	for i, it := range items {
		if d := time.Until(start.Add(time.Duration(i) * gap)); d > 0 {
			time.Sleep(d)
		}
		wg.Add(1)
		variant := rng.Intn(6)
		go func(it *retryItem) {
			defer wg.Done()
			it.obs, it.err = e.run(it.c, variant)
			if it.err == nil {
				it.v = judgeRun(it.c, it.obs)
			}
		}(it)
	}
	wg.Wait()
}

func hasViolation(v *verdict) bool {
	for _, f := range v.findings {
		if f.Class == "" {
			return true
		}
	}
	return false
}

func violationNames(v *verdict) map[string]bool {
	m := map[string]bool{}
	for _, f := range v.findings {
		if f.Class == "" {
			m[f.Name] = true
		}
	}
	return m
}

func TestRetryReplay(t *testing.T) {
	if *hx.In == "" {
		t.Skip("no -in")
	}
	res := hx.NewResult()
	e := newRetryEnv(t)
	defer e.close()
	rng := rand.New(rand.NewSource(*hx.Seed))

	var items []*retryItem
	err := hx.Lines(*hx.In, func(li int, line []byte) error {
		raw := json.RawMessage(append([]byte(nil), line...))
		c := &rcase{}
		if e := json.Unmarshal(raw, c); e != nil {
			return fmt.Errorf("line %d: %v", li, e)
		}
		if c.K != "retry" || len(c.Script) == 0 || len(c.Exp.Steps) != len(c.Script) || c.Timeout <= 0 || c.Dl <= 0 {
			return fmt.Errorf("line %d: not a retry case", li)
		}
		items = append(items, &retryItem{raw: raw, c: c})
		return nil
	})
	if err != nil {
		t.Fatal(err)
	}
	rng.Shuffle(len(items), func(i, j int) { items[i], items[j] = items[j], items[i] })
	// the long flushes are launched first: they end with the rest of the wave
	sort.SliceStable(items, func(i, j int) bool { return items[i].c.Dl > 3000 && items[j].c.Dl <= 3000 })

	// launches spread so that about 450 deliveries begin per second
	window := time.Duration(len(items)) * time.Second / 450
	t0 := time.Now()
	e.wave(items, window, rng)
	res.Notes = append(res.Notes, fmt.Sprintf("retry_wave %d deliveries in %.1fs, tolerance %dms", len(items), time.Since(t0).Seconds(), tol.Milliseconds()))

	// candidates are re-run (twice, in small waves): only what shows every time is reported
	var cands []*retryItem
	for _, it := range items {
		if it.err == nil && len(it.v.unexplained) == 0 && hasViolation(it.v) {
			cands = append(cands, it)
		}
	}
	res.Count("retry_candidates", len(cands))
	const maxRerun = 60
	confirmed := map[*retryItem]map[string]bool{}
	rerun := cands
	if len(rerun) > maxRerun {
		rerun = rerun[:maxRerun]
	}
	for _, it := range rerun {
		confirmed[it] = violationNames(it.v)
	}
	for round := 0; round < 2 && len(rerun) > 0; round++ {
		again := make([]*retryItem, len(rerun))
		for i, it := range rerun {
			again[i] = &retryItem{raw: it.raw, c: it.c}
		}
		e.wave(again, time.Duration(len(again))*20*time.Millisecond, rng)
		for i, it := range rerun {
			names := map[string]bool{}
			if again[i].err == nil && len(again[i].v.unexplained) == 0 {
				names = violationNames(again[i].v)
			}
			for nme := range confirmed[it] {
				if !names[nme] {
					delete(confirmed[it], nme)
				}
			}
		}
	}

	seen := 0
	for ci, it := range items {
		res.Cases++
		c := it.c
		if it.err != nil {
			res.Count("retry_harness_errors", 1)
			if res.Counters["retry_harness_errors"] <= 3 {
				res.Notes = append(res.Notes, "retry_harness_error "+it.err.Error())
			}
			continue
		}
		res.Count("retry_cases", 1)
		res.Count("retry_cases_"+c.Nt, 1)
		if c.To {
			res.Count("retry_cases_timeout_configured", 1)
		}
		if c.Cancel > 0 {
			res.Count("retry_cases_cancelled", 1)
		}
		n := len(it.obs.Attempts)
		res.Steps += n
		res.Count("retry_attempts", n)
		if len(it.v.unexplained) > 0 {
			res.Count("retry_unexplained", 1)
			if res.Counters["retry_unexplained"] <= 3 {
				res.Notes = append(res.Notes, fmt.Sprintf("retry_unexplained %s %v to=%v dl=%d cancel=%d: %s", c.Nt, c.Script, c.To, c.Dl, c.Cancel, it.v.unexplained[0]))
			}
			continue
		}
		res.Count("retry_judged", 1)
		res.Count("retry_offnominal_attempts", it.v.offnominal)
		if it.v.offnominal > 0 {
			res.Count("retry_offnominal_cases", 1)
		}
		if it.v.outsideModel {
			res.Count("retry_outside_model", 1)
			if res.Counters["retry_outside_model"] <= 3 {
				res.Notes = append(res.Notes, fmt.Sprintf("retry_outside_model %s %v to=%v dl=%d cancel=%d: %d attempts (specification %d..%d), finals %v, err %q",
					c.Nt, c.Script, c.To, c.Dl, c.Cancel, n, c.Exp.Min, c.Exp.Max, c.Exp.Finals, it.obs.Err))
			}
		}
		res.Count("retry_obligations", it.v.obligations)
		res.Count("retry_lowbound_judged", it.v.lowJudged)
		if c.Dl > 3000 {
			res.Count("retry_cases_long_flush", 1)
		}
		for w, k := range it.v.whys {
			res.Count("retry_why_"+w, k)
		}
		if n >= 2 {
			res.Nontrivial++
			res.Count("retry_cases_with_retries", 1)
		}
		if len(it.obs.LogMs) > 0 {
			res.Count("retry_logged", 1)
		}
		if it.obs.Err != "" {
			res.Count("retry_failed_deliveries", 1)
			if strings.Contains(it.obs.Err, "unrecoverable") {
				res.Count("retry_ended_unrecoverable", 1)
			}
		}
		if seen < 3 && n >= 3 && len(it.v.findings) == 0 {
			seen++
			res.Sample(hx.J(map[string]any{"k": "retry", "nt": c.Nt, "script": c.Script, "to": c.To, "dl": c.Dl, "cancel": c.Cancel, "observed": it.obs}))
		}
		for _, f := range it.v.findings {
			class := f.Class
			if class == "" {
				if keep, ok := confirmed[it]; ok {
					if !keep[f.Name] {
						res.Count("retry_flaky_"+f.Name, 1)
						res.Count("retry_flaky", 1)
						continue
					}
				} else {
					res.Count("retry_candidates_not_rerun", 1) // beyond maxRerun: counted, not reported
					continue
				}
			}
			name := class
			if name == "" {
				name = "violation"
			}
			res.Count("mismatch_"+name, 1)
			res.Count("retry_"+name+"_"+f.Name, 1)
			if class != "" && res.Counters["retry_"+name+"_"+f.Name] > 2 {
				continue
			}
			if class == "" && res.Counters["retry_violation_"+f.Name] > 4 {
				continue
			}
			res.Add(hx.Mismatch{Case: ci, What: fmt.Sprintf("retry %s: %s script %v, timeout configured %v (%dms), flush deadline %dms, cancel %dms: %s",
				f.Name, c.Nt, c.Script, c.To, c.Timeout, c.Dl, c.Cancel, f.Text),
				Want: map[string]any{"steps": c.Exp.Steps, "attempts": []int{c.Exp.Min, c.Exp.Max}, "finals": c.Exp.Finals},
				Got:  it.obs, Class: class, Replay: it.raw})
		}
	}
	sort.SliceStable(res.Mismatches, func(i, j int) bool { return res.Mismatches[i].Class < res.Mismatches[j].Class })
	if e := res.Write(); e != nil {
		t.Fatal(e)
	}
}
