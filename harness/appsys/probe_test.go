//go:build verif

package appsys

import (
	"bytes"
	"context"
	"encoding/json"
	"fmt"
	"io"
	"log/slog"
	"net/http"
	"net/http/httptest"
	"os"
	"path/filepath"
	"testing"
	"time"

	"github.com/prometheus/client_golang/prometheus"

	"github.com/prometheus/alertmanager/app"
	"github.com/prometheus/alertmanager/featurecontrol"
)

func TestProbe(t *testing.T) {
	hook := httptest.NewServer(http.HandlerFunc(func(w http.ResponseWriter, r *http.Request) {
		b, _ := io.ReadAll(r.Body)
		var p struct {
			ExternalURL string `json:"externalURL"`
			Alerts      []struct {
				Labels map[string]string `json:"labels"`
			} `json:"alerts"`
		}
		json.Unmarshal(b, &p)
		fmt.Println(time.Now().Format("15:04:05.000"), "HOOK", p.ExternalURL, len(p.Alerts), p.Alerts[0].Labels)
	}))
	defer hook.Close()
	dir := t.TempDir()
	cfg := fmt.Sprintf("route:\n  receiver: hook\n  group_by: [grp]\n  group_wait: 1s\n  group_interval: 3s\n  repeat_interval: 20s\nreceivers:\n- name: hook\n  webhook_configs:\n  - url: %s/hook\n    send_resolved: false\n", hook.URL)
	logger := slog.New(slog.NewTextHandler(os.Stderr, &slog.HandlerOptions{Level: slog.LevelInfo}))
	ff, _ := featurecontrol.NewFlags(logger, "")
	start := func(i int, peers []string) *app.App {
		d := filepath.Join(dir, fmt.Sprint("i", i))
		os.MkdirAll(d, 0o755)
		cp := filepath.Join(d, "am.yml")
		os.WriteFile(cp, []byte(cfg), 0o644)
		o := app.DefaultOptions()
		o.ConfigFile = cp
		o.DataDir = filepath.Join(d, "data")
		o.WebConfig = app.VerifWebConfig("127.0.0.1:0")
		o.ExternalURL = fmt.Sprintf("http://am%d.invalid:9093", i)
		o.RoutePrefix = "/"
		o.ClusterBindAddr = "127.0.0.1:0"
		o.ClusterPeerName = fmt.Sprintf("am%d-01", i)
		o.Peers = peers
		o.PeerTimeout = 3 * time.Second
		o.GossipInterval = 20 * time.Millisecond
		o.PushPullInterval = 10 * time.Second
		o.SettleTimeout = 5 * time.Second
		o.ReconnectInterval = time.Second
		o.Label = "probe"
		o.Logger = logger.With("inst", i)
		o.Registerer = prometheus.NewRegistry()
		o.Flagger = ff
		t0 := time.Now()
		a, err := app.New(o)
		if err != nil {
			t.Fatal(err)
		}
		if err := a.Start(); err != nil {
			t.Fatal(err)
		}
		fmt.Println("started", i, a.Addr(), time.Since(t0))
		return a
	}
	status := func(a *app.App) map[string]any {
		r, err := http.Get("http://" + a.Addr() + "/api/v2/status")
		if err != nil {
			t.Fatal(err)
		}
		defer r.Body.Close()
		var m map[string]any
		json.NewDecoder(r.Body).Decode(&m)
		return m["cluster"].(map[string]any)
	}
	a1 := start(1, nil)
	c1 := status(a1)
	fmt.Println("status1", c1)
	var addr1 string
	for _, p := range c1["peers"].([]any) {
		pm := p.(map[string]any)
		if pm["name"] == c1["name"] {
			addr1 = pm["address"].(string)
		}
	}
	a2 := start(2, []string{addr1})
	for i := 0; i < 30; i++ {
		s1, s2 := status(a1), status(a2)
		fmt.Println(time.Now().Format("15:04:05.000"), s1["status"], len(s1["peers"].([]any)), s2["status"], len(s2["peers"].([]any)))
		if s1["status"] == "ready" && s2["status"] == "ready" {
			break
		}
		time.Sleep(200 * time.Millisecond)
	}
	post := func(a *app.App, name string) {
		b := fmt.Sprintf(`[{"labels":{"alertname":"%s","grp":"%s"}}]`, name, name)
		r, err := http.Post("http://"+a.Addr()+"/api/v2/alerts", "application/json", bytes.NewReader([]byte(b)))
		if err != nil {
			t.Fatal(err)
		}
		fmt.Println(time.Now().Format("15:04:05.000"), "post", name, r.StatusCode)
		r.Body.Close()
	}
	post(a1, "a")
	post(a2, "a")
	post(a2, "b")
	time.Sleep(9 * time.Second)
	t0 := time.Now()
	fmt.Println("stop1", a1.Stop(context.Background()), time.Since(t0))
	t0 = time.Now()
	fmt.Println("stop2", a2.Stop(context.Background()), time.Since(t0))
	ents, _ := os.ReadDir(filepath.Join(dir, "i1", "data"))
	for _, e := range ents {
		fi, _ := e.Info()
		fmt.Println("data file", e.Name(), fi.Size())
	}
}
