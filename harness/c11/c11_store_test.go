// Direction A for spec/SnapshotStore.tla: every behaviour TLC generated (Gen_SnapshotStore:
// exhaustive short ones behind a fixed prefix, simulated long ones) is executed on the REAL
// silence.Silences / nflog.Log under virtual time:
//
//	add       Silences.Set of a new silence                 / Log.Log of a new (group, receiver) key
//	extend    Set on the existing id, EndsAt + 1h (in place)
//	comment   Set on the existing id, new comment (in place) / -
//	annotate  Set on the existing id, new annotations (in place)
//	expire    Silences.Expire of the existing id
//	relog     -                                             / Log.Log of the existing key, new content
//	tick      the ticker of the real Maintenance goroutine fires (GC + snapshot)
//	shutdown  the stop channel of the real Maintenance is closed (GC + shutdown snapshot)
//	kill      the data directory is copied as it is; the copy is what the next start sees
//	restart   the real silence.New / nflog.New on the snapshot file
//
// After every step the store is projected to the specification's record [p,e,c,a,dead,at] and
// compared with what TLC printed (conformance of the model).  The property is judged at every
// restart: the loaded state must equal, field by field (ids, matchers, times, comment,
// annotations / entries with receiver data), the state the store held when the last completed
// maintenance pass returned; and after every completed pass (a kill right after it followed by
// a restart is one of the specification's behaviours) the snapshot file must load to exactly
// that state.
package c11

import (
	"context"
	"encoding/json"
	"fmt"
	"io"
	"os"
	"path/filepath"
	"sort"
	"strconv"
	"strings"
	"sync"
	"testing"
	"testing/synctest"
	"time"

	"github.com/prometheus/common/model"
	"google.golang.org/protobuf/encoding/protowire"
	"google.golang.org/protobuf/proto"
	"google.golang.org/protobuf/types/known/timestamppb"

	"github.com/prometheus/alertmanager/nflog"
	npb "github.com/prometheus/alertmanager/nflog/nflogpb"
	"github.com/prometheus/alertmanager/silence"
	spb "github.com/prometheus/alertmanager/silence/silencepb"

	"verif/harness/hx"
)

// sRec is a record of spec/SnapshotStore.tla.
type sRec struct {
	P    bool `json:"p"`
	E    int  `json:"e"`
	C    int  `json:"c"`
	A    int  `json:"a"`
	Dead bool `json:"dead"`
	At   int  `json:"at"`
}

type sStep struct {
	Op     string          `json:"op"`
	K      string          `json:"k"`
	St     map[string]sRec `json:"st"`
	Now    int             `json:"now"`
	Phase  string          `json:"phase"`
	Gen    int             `json:"gen"`
	File   map[string]sRec `json:"file"`
	Cap    map[string]sRec `json:"cap"`
	Loaded struct {
		Got  map[string]sRec `json:"got"`
		Want map[string]sRec `json:"want"`
	} `json:"loaded"`
}

type sBehaviour struct {
	Kind string  `json:"kind"` // sil | log
	Ret  int     `json:"ret"`  // Retention of the model, in maintenance intervals
	Src  string  `json:"src"`
	H    []sStep `json:"h"`
}

const (
	interval = time.Minute      // maintenance interval = one unit of the model's clock
	endBase  = 1000 * time.Hour // EndsAt of a silence with e = 0 would be Epoch + endBase
)

// live is a running store driven by the operations of the specification.
type live interface {
	handle
	add(key string) error
	update(key, what string) error
	expire(key string) error
	abs() (map[string]sRec, []string)
	effect(want map[string]sRec) string
}

func present(m map[string]sRec) map[string]sRec {
	out := map[string]sRec{}
	for k, r := range m {
		if r.P {
			out[k] = r
		}
	}
	return out
}

func sameAbs(want, got map[string]sRec) string {
	w, g := present(want), present(got)
	for k, r := range w {
		x, ok := g[k]
		if !ok {
			return fmt.Sprintf("%s missing (specification: %+v)", k, r)
		}
		if x != r {
			return fmt.Sprintf("%s is %+v, specification: %+v", k, x, r)
		}
	}
	for k, x := range g {
		if _, ok := w[k]; !ok {
			return fmt.Sprintf("%s = %+v, absent in the specification", k, x)
		}
	}
	return ""
}

func tickOf(t time.Time) int { return int(t.Sub(hx.Epoch) / interval) }

// ---------------------------------------------------------------- silences

type liveSil struct {
	*silH
	ids map[string]string // key of the model -> id the real code assigned
}

func (l *liveSil) add(key string) error {
	s := &spb.Silence{
		MatcherSets: []*spb.MatcherSet{set(eq("key", key), re("b", "x|y")), set(eq("alt", key))},
		StartsAt:    timestamppb.New(time.Now()),
		EndsAt:      ts(endBase + time.Hour),
		CreatedBy:   "api",
		Comment:     "c0",
		Annotations: map[string]string{"rev": "0", "key": key},
	}
	if err := l.s.Set(context.Background(), s); err != nil {
		return err
	}
	l.ids[key] = s.Id
	return nil
}

func (l *liveSil) current(key string) (*spb.Silence, error) {
	id, ok := l.ids[key]
	if !ok {
		return nil, fmt.Errorf("no id known for %s", key)
	}
	sils, _, err := l.s.Query(context.Background(), silence.QIDs(id))
	if err != nil || len(sils) != 1 {
		return nil, fmt.Errorf("Query(%s): %v, %d silences", id, err, len(sils))
	}
	return proto.Clone(sils[0]).(*spb.Silence), nil
}

func (l *liveSil) update(key, what string) error {
	cur, err := l.current(key)
	if err != nil {
		return err
	}
	id := cur.Id
	switch what {
	case "extend":
		cur.EndsAt = timestamppb.New(cur.EndsAt.AsTime().Add(time.Hour))
	case "comment":
		n, _ := strconv.Atoi(strings.TrimPrefix(cur.Comment, "c"))
		cur.Comment = fmt.Sprintf("c%d", n+1)
	case "annotate":
		n, _ := strconv.Atoi(cur.Annotations["rev"])
		cur.Annotations["rev"] = strconv.Itoa(n + 1)
		cur.Annotations[fmt.Sprintf("note%d", n+1)] = "ärger " + key
	}
	if err := l.s.Set(context.Background(), cur); err != nil {
		return err
	}
	if cur.Id != id {
		return fmt.Errorf("Set on %s was not in place: new id %s", id, cur.Id)
	}
	return nil
}

func (l *liveSil) expire(key string) error { return l.s.Expire(context.Background(), l.ids[key]) }

func (l *liveSil) abs() (map[string]sRec, []string) {
	_, probs := l.proj() // Query and MarshalBinary agree
	sils, _, err := l.s.Query(context.Background())
	if err != nil {
		return nil, append(probs, "Query: "+err.Error())
	}
	rev := map[string]string{}
	for k, id := range l.ids {
		rev[id] = k
	}
	now := time.Now()
	out := map[string]sRec{}
	for _, s := range sils {
		k, ok := rev[s.Id]
		if !ok {
			probs = append(probs, "silence with unknown id "+s.Id)
			continue
		}
		r := sRec{P: true}
		r.C, _ = strconv.Atoi(strings.TrimPrefix(s.Comment, "c"))
		r.A, _ = strconv.Atoi(s.Annotations["rev"])
		if end := s.EndsAt.AsTime(); !end.After(now) {
			r.Dead, r.At = true, tickOf(end)
		} else {
			r.E = int(end.Sub(hx.Epoch.Add(endBase)) / time.Hour)
			r.At = tickOf(s.StartsAt.AsTime())
		}
		if len(s.MatcherSets) != 2 || s.Annotations["key"] != k || len(s.Annotations) != 2+r.A {
			probs = append(probs, fmt.Sprintf("silence %s (%s): matcher sets / annotations changed: %v %v", s.Id, k, s.MatcherSets, s.Annotations))
		}
		out[k] = r
	}
	return out, probs
}

// effect: an alert matched by the silence of key k is muted iff that silence is there and not expired.
func (l *liveSil) effect(want map[string]sRec) string {
	for k, r := range want {
		for i, ls := range []model.LabelSet{{"key": model.LabelValue(k), "b": "x"}, {"alt": model.LabelValue(k)}} {
			if got := l.mut.Mutes(context.Background(), ls); got != (r.P && !r.Dead) {
				return fmt.Sprintf("Mutes(%v) = %v, silence %s is %+v (matcher set %d)", ls, got, k, r, i)
			}
		}
	}
	return ""
}

// ---------------------------------------------------------------- notification log

type liveLog struct{ *logH }

func recvOf(key string) *npb.Receiver {
	return &npb.Receiver{GroupName: "recv-" + key, Integration: "webhook", Idx: 3}
}
func gkOf(key string) string { return `{}/{team="x"}:{key="` + key + `"}` }

func (l *liveLog) log(key string, c int) error {
	st := nflog.NewStore(nil)
	st.SetInt("rev", int64(c))
	st.SetStr("s", fmt.Sprintf("é%d", c))
	st.SetFloat("f", float64(c)/4)
	return l.l.Log(recvOf(key), gkOf(key), []uint64{uint64(c) + 1, 77}, []uint64{uint64(c) + 100}, st, 0)
}

func (l *liveLog) add(key string) error { return l.log(key, 0) }

func (l *liveLog) update(key, what string) error {
	es, err := l.l.Query(nflog.QReceiver(recvOf(key)), nflog.QGroupKey(gkOf(key)))
	if err != nil || len(es) != 1 {
		return fmt.Errorf("Query(%s): %v", key, err)
	}
	return l.log(key, int(es[0].ReceiverData["rev"].GetIntVal())+1)
}

func (l *liveLog) expire(key string) error { return fmt.Errorf("the log has no expire") }

func (l *liveLog) abs() (map[string]sRec, []string) {
	_, probs := l.proj()
	b, err := l.l.MarshalBinary()
	if err != nil {
		return nil, append(probs, err.Error())
	}
	bs, _, err := bounds(b)
	if err != nil {
		return nil, append(probs, err.Error())
	}
	out := map[string]sRec{}
	for i := 0; i+1 < len(bs); i++ {
		var m npb.MeshEntry
		_, n := protowire.ConsumeVarint(b[bs[i]:])
		if proto.Unmarshal(b[bs[i]+n:bs[i+1]], &m) != nil || m.Entry == nil || m.Entry.Receiver == nil {
			continue // reported by proj
		}
		k := strings.TrimPrefix(m.Entry.Receiver.GroupName, "recv-")
		r := sRec{P: true, C: int(m.Entry.ReceiverData["rev"].GetIntVal()), At: tickOf(m.Entry.Timestamp.AsTime())}
		if string(m.Entry.GroupKey) != gkOf(k) || len(m.Entry.FiringAlerts) != 2 || m.Entry.FiringAlerts[0] != uint64(r.C)+1 ||
			len(m.Entry.ResolvedAlerts) != 1 || m.Entry.ResolvedAlerts[0] != uint64(r.C)+100 ||
			m.Entry.ReceiverData["s"].GetStrVal() != fmt.Sprintf("é%d", r.C) || len(m.Entry.ReceiverData) != 3 ||
			!m.ExpiresAt.AsTime().Equal(m.Entry.Timestamp.AsTime().Add(retention)) {
			probs = append(probs, fmt.Sprintf("entry %s: fields of one entry disagree: %s", k, projEntry(m.Entry, m.ExpiresAt)))
		}
		out[k] = r
	}
	return out, probs
}

// effect: Query returns the entry of key k iff it is there, with that content.
func (l *liveLog) effect(want map[string]sRec) string {
	for k, r := range want {
		es, err := l.l.Query(nflog.QReceiver(recvOf(k)), nflog.QGroupKey(gkOf(k)))
		switch {
		case r.P && (err != nil || len(es) != 1):
			return fmt.Sprintf("Query(%s): %v, %d entries; the entry is %+v", k, err, len(es), r)
		case r.P && int(es[0].ReceiverData["rev"].GetIntVal()) != r.C:
			return fmt.Sprintf("Query(%s) returns revision %d, the entry is %+v", k, es[0].ReceiverData["rev"].GetIntVal(), r)
		case !r.P && err == nil:
			return fmt.Sprintf("Query(%s) returns an entry, there is none", k)
		}
	}
	return ""
}

func mkLive(h handle, ids map[string]string) live {
	switch x := h.(type) {
	case *silH:
		return &liveSil{silH: x, ids: ids}
	case *logH:
		return &liveLog{logH: x}
	}
	panic("unknown store")
}

// ---------------------------------------------------------------- the driver

// admit keeps at most 12 stored mismatches per kind (the result file holds 50), all are counted.
var (
	admitMu sync.Mutex
	admitN  = map[string]int{}
)

func admit(what string) bool {
	admitMu.Lock()
	defer admitMu.Unlock()
	admitN[what]++
	return admitN[what] <= 12
}

func passNote(e string) string {
	if e == "" {
		return ""
	}
	return " (the pass had failed: " + short(e, 200) + ")"
}

var inPlaceOps = map[string]bool{"extend": true, "comment": true, "annotate": true, "expire": true, "relog": true}

func copyFile(dst, src string) error {
	in, err := os.Open(src)
	if err != nil {
		if os.IsNotExist(err) {
			return nil
		}
		return err
	}
	defer in.Close()
	out, err := os.Create(dst)
	if err != nil {
		return err
	}
	if _, err := io.Copy(out, in); err != nil {
		out.Close()
		return err
	}
	return out.Close()
}

func keysOf(m map[string]sRec) string {
	var ks []string
	for k := range present(m) {
		ks = append(ks, k)
	}
	sort.Strings(ks)
	return strings.Join(ks, ",")
}

// replayStore runs one behaviour inside its own bubble; returns false if the driver itself
// failed (not a verdict).
func replayStore(t *testing.T, res *hx.Result, idx int, line []byte, b *sBehaviour, dir string) {
	k := kindOf(map[string]string{"sil": "silences", "log": "nflog"}[b.Kind])
	if k == nil {
		t.Fatalf("behaviour %d: unknown kind %q", idx, b.Kind)
	}
	os.RemoveAll(dir)
	if err := os.MkdirAll(dir, 0o755); err != nil {
		t.Fatal(err)
	}
	file := filepath.Join(dir, k.name)
	ids := map[string]string{}
	var lv live
	var stopc, done chan struct{}
	start := func(f string) error {
		h, err := k.open(f, nil)
		if err != nil {
			return err
		}
		lv = mkLive(h, ids)
		stopc, done = make(chan struct{}), make(chan struct{})
		sc, dc := stopc, done
		go func() { h.maintenance(interval, f, sc); close(dc) }()
		return nil
	}
	running := false
	stop := func() {
		if running {
			close(stopc)
			<-done
			running = false
		}
	}
	defer stop()
	at := func(d time.Duration) {
		if dl := hx.Epoch.Add(d).Sub(time.Now()); dl > 0 {
			time.Sleep(dl)
		}
	}
	bad, lost := false, false
	fail := func(step int, class, what, got string) {
		lost = lost || class == "lossless" // from here on the store may legitimately differ from the model (state was lost)
		if class != "lossless" {
			bad = true // the model does not describe the run any more: stop; a lost state is followed to the restart
		}
		if !admit(what) {
			res.Count("mismatches_not_stored", 1)
			return
		}
		res.Add(hx.Mismatch{Case: idx, Step: step, What: what, Class: class, Got: k.name + ": " + got,
			Replay: hx.J(map[string]any{"kind": b.Kind, "ret": b.Ret, "src": b.Src, "failed_at_step": step, "h": b.H})})
	}
	if err := start(file); err != nil {
		t.Fatalf("behaviour %d: start on an empty directory: %v", idx, err)
	}
	running = true
	now, nops, passes, failedPasses, passErr := 0, 0, 0.0, 0.0, ""
	capt := map[string]string{} // concrete state captured by the last completed pass
	var since []string          // API writes since the last completed pass
	contentOnly := false        // the last completed pass followed in-place changes only, with the id set unchanged
	var contentOps []string
	passKind := ""
	hit := false
	for i, st := range b.H {
		prev := map[string]sRec{}
		if i > 0 {
			prev = b.H[i-1].St
		}
		switch st.Op {
		case "add", "extend", "comment", "annotate", "expire", "relog":
			nops++
			at(time.Duration(now)*interval + time.Duration(nops)*time.Second)
			var err error
			switch st.Op {
			case "add":
				err = lv.add(st.K)
			case "expire":
				err = lv.expire(st.K)
			default:
				err = lv.update(st.K, st.Op)
			}
			if err != nil {
				fail(i, "conformance", "API write refused", fmt.Sprintf("%s(%s): %v", st.Op, st.K, err))
				return
			}
			since = append(since, st.Op)
		case "tick", "shutdown":
			if st.Op == "tick" {
				at(time.Duration(now+1) * interval)
				synctest.Wait()
				now, nops = now+1, 0
			} else {
				at(time.Duration(now)*interval + 55*time.Second)
				stop()
			}
			passes++
			p, e := lv.maint()
			if p != passes {
				t.Fatalf("behaviour %d step %d (%s): the real Maintenance ran %v passes, the driver expects %v: not a verdict", idx, i, st.Op, p, passes)
			}
			if e != failedPasses {
				// no fault is injected here and the environment was probed (crossDevice): a pass that returns an
				// error delivered no snapshot although it could have - the store goes on, the loss shows at the
				// next start
				failedPasses = e
				passErr = lv.lastError()
				res.Count("maintenance_passes_failed_without_injected_fault", 1)
				fail(i, "lossless", "a maintenance pass fails although no fault is injected: no snapshot of the current state is written",
					fmt.Sprintf("%s (%d. pass): %s", st.Op, int(passes), passErr))
			} else {
				passErr = ""
			}
			var probs []string
			if capt, probs = lv.proj(); len(probs) > 0 {
				fail(i, "conformance", "store inconsistent", probs[0])
			}
			contentOnly = st.Gen >= 2 && len(since) > 0 && keysOf(prev) == keysOf(st.St)
			for _, o := range since {
				contentOnly = contentOnly && inPlaceOps[o]
			}
			contentOps, passKind, since = since, st.Op, nil
			// a kill right after the completed pass and a restart: the file is the captured state
			if h2, err := k.open(file, nil); err != nil {
				fail(i, "lossless", "start-up error on the snapshot of a completed maintenance pass", err.Error())
			} else if got, _ := h2.proj(); sameProj(capt, got) != "" {
				fail(i, "lossless", "the snapshot file of a completed maintenance pass does not hold the state the pass captured",
					fmt.Sprintf("after %s (%d. pass, API writes since the previous pass: %v): %s", st.Op, int(passes), contentOps, sameProj(capt, got)))
			}
		case "kill":
			at(time.Duration(now)*interval + 55*time.Second)
			nd := filepath.Join(dir, fmt.Sprintf("killed%d", i))
			os.MkdirAll(nd, 0o755)
			nf := filepath.Join(nd, k.name)
			if err := copyFile(nf, file); err != nil {
				t.Fatal(err)
			}
			stop() // the old process; what it still writes goes to the old directory
			file = nf
		case "restart":
			at(time.Duration(now+1) * interval)
			now, nops, passes, failedPasses, since = now+1, 0, 0, 0, nil
			if err := start(file); err != nil {
				fail(i, "lossless", "start-up error after restart", err.Error())
				return // no store to go on with
			}
			running = true
			got, probs := lv.proj()
			if d := sameProj(capt, got); d != "" {
				fail(i, "lossless", "state loaded after restart differs from the state captured by the last completed snapshot",
					fmt.Sprintf("last pass: %s after API writes %v%s: %s", passKind, contentOps, passNote(passErr), d))
			} else if len(probs) > 0 {
				fail(i, "lossless", "state inconsistent after restart", probs[0])
			}
			if contentOnly {
				hit = true
				res.Count("restart_after_content_only_"+passKind, 1)
				for _, o := range contentOps {
					res.Count("restart_after_content_only_"+o, 1)
				}
			}
			res.Count("restarts", 1)
			if p := lv.effect(st.Loaded.Want); p != "" {
				fail(i, "lossless", "record without its effect after restart", p)
			}
			res.Count("probes", len(st.Loaded.Want))
		default:
			t.Fatalf("behaviour %d: unknown operation %q", idx, st.Op)
		}
		// conformance of the model: the store after the step (a killed process has none)
		if st.Op == "kill" {
			res.Count("steps", 1)
			continue
		}
		if got, probs := lv.abs(); len(probs) > 0 {
			fail(i, "conformance", "store inconsistent", probs[0])
		} else if d := sameAbs(st.St, got); d != "" && !bad && !lost {
			fail(i, "conformance", "store after "+st.Op+" deviates from the specification", d)
		}
		res.Count("steps", 1)
		if bad {
			return
		}
	}
	if lost {
		return // keep the directory
	}
	if hit {
		res.Count("nontrivial", 1)
		if len(b.H) <= 8 {
			res.Sample(line)
		}
	}
	stop()
	os.RemoveAll(dir)
}

func TestReplay(t *testing.T) {
	res := hx.NewResult()
	defer res.Write()
	crossDevice(t, res)
	base := scratch(t, "store")
	old := retention
	defer func() { retention = old }()
	type item struct {
		i    int
		line []byte
		b    *sBehaviour
	}
	byRet := map[int][]item{}
	err := hx.Lines(*hx.In, func(i int, line []byte) error {
		b := &sBehaviour{}
		if err := json.Unmarshal(line, b); err != nil {
			return fmt.Errorf("line %d: %v", i, err)
		}
		if *hx.Limit > 0 && i >= *hx.Limit {
			return nil
		}
		byRet[b.Ret] = append(byRet[b.Ret], item{i, append([]byte(nil), line...), b})
		res.Cases++
		res.Count("behaviours_"+b.Kind, 1)
		return nil
	})
	if err != nil {
		t.Fatal(err)
	}
	// behaviours are independent (own bubble, own directory): run them in parallel; the
	// retention is a package variable of the harness, so one group per value
	for ret, items := range byRet {
		retention = time.Duration(ret) * interval
		t.Run(fmt.Sprintf("ret%d", ret), func(t *testing.T) {
			for _, it := range items {
				t.Run(strconv.Itoa(it.i), func(t *testing.T) {
					t.Parallel()
					synctest.Test(t, func(t *testing.T) {
						replayStore(t, res, it.i, it.line, it.b, filepath.Join(base, fmt.Sprintf("b%d", it.i)))
					})
				})
			}
		})
	}
	res.Steps = res.Counters["steps"]
	res.Nontrivial = res.Counters["nontrivial"]
}
