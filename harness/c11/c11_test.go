// Conformance harness for C11 (snapshots are atomic and lossless).
//
//	TestRecordOps    (a) runs the real Silences.Maintenance / nflog.Log.Maintenance in a child
//	                     process under strace, abstracts the file-system calls on the snapshot
//	                     paths to the alphabet of spec/Snapshot.tla (constant Ops) and checks
//	                     their shape (data fsynced before the rename onto the final name).
//	TestCrashStates  (b) materialises every post-crash directory TLC enumerated from those Ops
//	                     and starts the real loader (silence.New / nflog.New with SnapshotFile).
//	TestRoundTrip    (c) store shapes x sizes written by the real Snapshot, loaded by the real New.
//	TestPrefixCuts   (d) every prefix of a snapshot presented to the real loader.
//	TestReplay       (e) (c11_store_test.go) behaviours of spec/SnapshotStore.tla - API writes that add
//	                     an id and writes that change an existing record in place, maintenance passes
//	                     on tick and on shutdown, kill, restart - on the real stores with the real
//	                     Maintenance goroutine and the real loader.
//	TestHelperSnapshot   the child of (a) (selected by the environment variable C11_HELPER); scenarios
//	                     wfail_* make a snapshot write fail for real (RLIMIT_FSIZE -> EFBIG): fault
//	                     WriteFail of spec/Snapshot.tla; TestRecordOps then starts the real loader on
//	                     what the real Maintenance left behind (f).
package c11

import (
	"bufio"
	"bytes"
	"context"
	"encoding/hex"
	"encoding/json"
	"flag"
	"fmt"
	"io"
	"log/slog"
	"math"
	"math/rand"
	"os"
	"os/exec"
	"os/signal"
	"path/filepath"
	"regexp"
	"sort"
	"strconv"
	"strings"
	"sync"
	"syscall"
	"testing"
	"testing/synctest"
	"time"

	"github.com/prometheus/client_golang/prometheus"
	"github.com/prometheus/common/model"
	"github.com/prometheus/common/promslog"
	"google.golang.org/protobuf/encoding/protodelim"
	"google.golang.org/protobuf/encoding/protowire"
	"google.golang.org/protobuf/proto"
	"google.golang.org/protobuf/types/known/timestamppb"

	"github.com/prometheus/alertmanager/eventrecorder"
	"github.com/prometheus/alertmanager/nflog"
	npb "github.com/prometheus/alertmanager/nflog/nflogpb"
	"github.com/prometheus/alertmanager/silence"
	spb "github.com/prometheus/alertmanager/silence/silencepb"

	"verif/harness/hx"
)

var (
	tier    = flag.String("tier", "quick", "quick | thorough")
	workDir = flag.String("work", "", "scratch directory (under /verif/out/C11)")
	// a directory on ANOTHER file system than -work: it becomes $TMPDIR of everything that runs the real
	// Maintenance, so that a temporary file that is not created next to its target cannot be renamed onto it
	otherTmp = flag.String("othertmp", "", "directory on another file system than -work (becomes TMPDIR); empty = none available")
)

// crossDevice installs -othertmp as $TMPDIR of this process (and so of its children) after checking that
// the environment is healthy: both directories writable, on different devices, rename works within -work.
func crossDevice(t testing.TB, res *hx.Result) {
	if *otherTmp == "" {
		res.Notes = append(res.Notes, "no second file system: data directory and $TMPDIR are on one file system")
		return
	}
	var a, b syscall.Stat_t
	w := scratch(t, "")
	if err := syscall.Stat(w, &a); err != nil {
		t.Fatal(err)
	}
	if err := syscall.Stat(*otherTmp, &b); err != nil {
		t.Fatal(err)
	}
	if a.Dev == b.Dev {
		t.Fatalf("-othertmp %s is on the same device as %s", *otherTmp, w)
	}
	for _, d := range []string{w, *otherTmp} { // the environment is healthy: create, write, fsync, rename work
		p := filepath.Join(d, "c11_probe")
		f, err := os.Create(p + ".tmp")
		if err == nil {
			_, err = f.Write(make([]byte, 1<<16))
		}
		if err == nil {
			err = f.Sync()
		}
		if err == nil {
			err = f.Close()
		}
		if err == nil {
			err = os.Rename(p+".tmp", p)
		}
		if err != nil {
			t.Fatalf("the scratch directory %s is not usable: %v", d, err)
		}
		os.Remove(p)
	}
	os.Setenv("TMPDIR", *otherTmp)
	res.Count("data_dir_and_tmpdir_on_different_file_systems", 1)
}

const unitsPer = 4 // U of spec/mc/MC_Snapshot.tla: boundary, +1 byte, mid-record, next boundary-1

// retention of the stores the harness opens (TestReplay sets it to the model's Retention).
var retention = 120 * time.Hour

func ts(d time.Duration) *timestamppb.Timestamp { return timestamppb.New(hx.Epoch.Add(d)) }

func tstr(t *timestamppb.Timestamp) string {
	if t == nil {
		return "nil"
	}
	return fmt.Sprintf("%d.%09d", t.Seconds, t.Nanos)
}

// ---------------------------------------------------------------- records and stores

// rec is one crafted record of a store together with what the property expects of it
// after a restart.
type rec struct {
	key    string
	msg    proto.Message
	want   string           // expected projection of the loaded record
	state  string           // silences: active | pending | expired (at hx.Epoch)
	muteBy []model.LabelSet // silences: one label set per matcher set, matched by this silence only
	shape  int
}

// handle is a running store behind its public API.
type handle interface {
	proj() (map[string]string, []string) // key -> projection of every stored record, problems
	snapshot(w io.Writer) (int64, error)
	maintenance(interval time.Duration, snapf string, stopc <-chan struct{})
	probe(r rec) string            // "" if the record still has its effect (mutes / is returned by Query)
	mutate(i int) error            // one API write (used between snapshots)
	maint() (passes, errs float64) // maintenance passes run / failed (the store's own metrics)
	lastError() string             // the last error the store logged ("" = none)
}

// errLog keeps the error records a store logs (Maintenance only logs its failures).
type errLog struct {
	mu   sync.Mutex
	last string
}

func (e *errLog) Enabled(_ context.Context, l slog.Level) bool { return l >= slog.LevelError }
func (e *errLog) Handle(_ context.Context, r slog.Record) error {
	msg := r.Message
	r.Attrs(func(a slog.Attr) bool { msg += fmt.Sprintf(" %s=%v", a.Key, a.Value); return true })
	e.mu.Lock()
	e.last = msg
	e.mu.Unlock()
	return nil
}
func (e *errLog) WithAttrs([]slog.Attr) slog.Handler { return e }
func (e *errLog) WithGroup(string) slog.Handler      { return e }
func (e *errLog) get() string {
	e.mu.Lock()
	defer e.mu.Unlock()
	return e.last
}

// counter reads a counter of a store's metrics registry.
func counter(reg *prometheus.Registry, name string) float64 {
	mfs, err := reg.Gather()
	if err != nil {
		return -1
	}
	for _, mf := range mfs {
		if mf.GetName() == name && len(mf.Metric) > 0 && mf.Metric[0].Counter != nil {
			return mf.Metric[0].Counter.GetValue()
		}
	}
	return -1
}

type kind struct {
	name   string
	craft  func(j int) rec
	open   func(file string, rd io.Reader) (handle, error)
	shapes int
}

var kinds = []*kind{
	{name: "silences", craft: craftSilence, open: openSil, shapes: nSilShapes},
	{name: "nflog", craft: craftEntry, open: openLog, shapes: nLogShapes},
}

func kindOf(name string) *kind {
	for _, k := range kinds {
		if k.name == name {
			return k
		}
	}
	return nil
}

func encode(rs []rec) []byte {
	var buf bytes.Buffer
	for _, r := range rs {
		if _, err := protodelim.MarshalTo(&buf, r.msg); err != nil {
			panic(err)
		}
	}
	return buf.Bytes()
}

// bounds returns the record boundaries 0 = b0 < b1 < ... < bn = len(b) of a
// length-delimited byte string (and the length of each length prefix).
func bounds(b []byte) (bs []int, pre []int, err error) {
	bs = []int{0}
	for p := 0; p < len(b); {
		sz, n := protowire.ConsumeVarint(b[p:])
		if n < 0 || p+n+int(sz) > len(b) {
			return nil, nil, fmt.Errorf("not a sequence of whole records at offset %d", p)
		}
		pre = append(pre, n)
		p += n + int(sz)
		bs = append(bs, p)
	}
	return bs, pre, nil
}

// ---------------------------------------------------------------- silences

type silProj struct {
	ID      string        `json:"id"`
	Sets    [][][3]string `json:"sets"`
	RSets   [][][3]string `json:"rsets,omitempty"`
	Start   string        `json:"start"`
	End     string        `json:"end"`
	Upd     string        `json:"upd"`
	Exp     string        `json:"exp,omitempty"`
	By      string        `json:"by"`
	Comment string        `json:"comment"`
	Ann     [][2]string   `json:"ann,omitempty"`
}

func msets(in []*spb.MatcherSet) [][][3]string {
	var out [][][3]string
	for _, s := range in {
		out = append(out, mlist(s.Matchers))
	}
	return out
}

func mlist(in []*spb.Matcher) [][3]string {
	out := [][3]string{}
	for _, m := range in {
		out = append(out, [3]string{m.Type.String(), m.Name, m.Pattern})
	}
	return out
}

// projSil is the content of a silence as the statement lists it.  crafted = the record as
// written into a snapshot file (old files carry one matcher list and a comment list, which
// ARE the silence's matchers / comment); otherwise the silence as the running code exposes
// it, where consumers read MatcherSets, Comment, CreatedBy only.
func projSil(s *spb.Silence, exp *timestamppb.Timestamp, crafted bool) string {
	p := silProj{ID: s.Id, Sets: msets(s.MatcherSets), RSets: msets(s.ReceiverMatcherSets),
		Start: tstr(s.StartsAt), End: tstr(s.EndsAt), Upd: tstr(s.UpdatedAt),
		By: s.CreatedBy, Comment: s.Comment}
	if exp != nil {
		p.Exp = tstr(exp)
	}
	if crafted {
		if len(s.MatcherSets) == 0 && len(s.Matchers) > 0 {
			p.Sets = [][][3]string{mlist(s.Matchers)}
		}
		if len(s.Comments) > 0 {
			p.By, p.Comment = s.Comments[0].Author, s.Comments[0].Comment
		}
	}
	for k, v := range s.Annotations {
		p.Ann = append(p.Ann, [2]string{k, v})
	}
	sort.Slice(p.Ann, func(i, j int) bool { return p.Ann[i][0] < p.Ann[j][0] })
	b, _ := json.Marshal(p)
	return string(b)
}

const nSilShapes = 9

func eq(n, v string) *spb.Matcher { return &spb.Matcher{Type: spb.Matcher_EQUAL, Name: n, Pattern: v} }
func re(n, v string) *spb.Matcher { return &spb.Matcher{Type: spb.Matcher_REGEXP, Name: n, Pattern: v} }
func neq(n, v string) *spb.Matcher {
	return &spb.Matcher{Type: spb.Matcher_NOT_EQUAL, Name: n, Pattern: v}
}
func nre(n, v string) *spb.Matcher {
	return &spb.Matcher{Type: spb.Matcher_NOT_REGEXP, Name: n, Pattern: v}
}
func set(m ...*spb.Matcher) *spb.MatcherSet { return &spb.MatcherSet{Matchers: m} }

func silID(j int) string { return fmt.Sprintf("%08x-c110-4000-8000-%012x", j, j*7919+1) }

// craftSilence is item j of the silence catalogue: shape j mod 9, time state varying
// independently.  Every matcher set pins a label to the value v<j>, so the label sets in
// muteBy are matched by silence j only.
func craftSilence(j int) rec {
	v := fmt.Sprintf("v%d", j)
	shape := j % nSilShapes
	state := []string{"active", "pending", "expired"}[(j/nSilShapes+j)%3]
	var start, end time.Duration
	switch state {
	case "active":
		start, end = -time.Hour, time.Hour
	case "pending":
		start, end = time.Hour, 2*time.Hour
	case "expired":
		start, end = -2*time.Hour, -time.Hour
	}
	nanos := time.Duration(j%1000)*time.Millisecond + 123456789*time.Nanosecond
	s := &spb.Silence{
		Id:        silID(j),
		StartsAt:  ts(start + nanos),
		EndsAt:    ts(end + nanos),
		UpdatedAt: ts(start + nanos - time.Minute),
		CreatedBy: "verif",
		Comment:   fmt.Sprintf("silence %d", j),
	}
	r := rec{key: s.Id, state: state, shape: shape}
	switch shape {
	case 0:
		s.MatcherSets = []*spb.MatcherSet{set(eq("a", v))}
		r.muteBy = []model.LabelSet{{"a": model.LabelValue(v)}}
	case 1:
		s.MatcherSets = []*spb.MatcherSet{set(eq("a", v), re("b", "y.*"))}
		r.muteBy = []model.LabelSet{{"a": model.LabelValue(v), "b": "yes"}}
	case 2:
		s.MatcherSets = []*spb.MatcherSet{set(eq("a", v)), set(eq("b", v), neq("c", "z"))}
		r.muteBy = []model.LabelSet{{"a": model.LabelValue(v)}, {"b": model.LabelValue(v), "c": "w"}}
	case 3:
		s.MatcherSets = []*spb.MatcherSet{set(eq("a", v), nre("d", "q.+")), set(eq("b", v)), set(re("c", v+"|"+v+"x"))}
		s.Annotations = map[string]string{"ticket": "OPS-" + v, "ключ": "значение", "empty": ""}
		r.muteBy = []model.LabelSet{{"a": model.LabelValue(v), "d": "r"}, {"b": model.LabelValue(v)}, {"c": model.LabelValue(v + "x")}}
	case 4:
		s.MatcherSets = []*spb.MatcherSet{set(eq("é", v+"ü😀"))}
		s.CreatedBy = "Zoë"
		s.Comment = "línea 1\nlínea 2 — ✓ " + strings.Repeat("long ", 40)
		r.muteBy = []model.LabelSet{{"é": model.LabelValue(v + "ü😀")}}
	case 5: // the old format: one matcher list, no matcher sets
		s.Matchers = []*spb.Matcher{eq("a", v), re("b", "y.*")}
		r.muteBy = []model.LabelSet{{"a": model.LabelValue(v), "b": "yz"}}
	case 6: // the old format with the deprecated comment list
		s.Matchers = []*spb.Matcher{eq("a", v)}
		s.CreatedBy, s.Comment = "", ""
		s.Comments = []*spb.Comment{{Author: "old", Comment: "legacy " + v, Timestamp: ts(start)}}
		r.muteBy = []model.LabelSet{{"a": model.LabelValue(v)}}
	case 7:
		s.MatcherSets = []*spb.MatcherSet{set(eq("a", v))}
		s.ReceiverMatcherSets = []*spb.MatcherSet{set(eq("receiver", "team-"+v)), set(re("receiver", "ops.*"))}
		r.muteBy = []model.LabelSet{{"a": model.LabelValue(v)}}
	case 8: // what the current writer emits: first set duplicated in the old field
		s.MatcherSets = []*spb.MatcherSet{set(eq("a", v), neq("e", "")), set(nre("f", "g|h"), eq("b", v))}
		s.Matchers = s.MatcherSets[0].Matchers
		s.Annotations = map[string]string{"k": v}
		r.muteBy = []model.LabelSet{{"a": model.LabelValue(v), "e": "1"}, {"b": model.LabelValue(v), "f": "i"}}
	}
	exp := ts(end + nanos + retention)
	r.msg = &spb.MeshSilence{Silence: s, ExpiresAt: exp}
	r.want = projSil(s, exp, true)
	return r
}

type silH struct {
	s   *silence.Silences
	mut *silence.Silencer
	reg *prometheus.Registry
	el  *errLog
}

func (h *silH) lastError() string { return h.el.get() }

func openSil(file string, rd io.Reader) (handle, error) {
	reg := prometheus.NewRegistry()
	el := &errLog{}
	s, err := silence.New(silence.Options{
		Logger:         slog.New(el),
		SnapshotFile:   file,
		SnapshotReader: rd,
		Retention:      retention,
		Metrics:        reg,
		EventRecorder:  eventrecorder.NopRecorder(),
	})
	if err != nil {
		return nil, err
	}
	return &silH{s: s, mut: silence.NewSilencer(s, promslog.NewNopLogger(), eventrecorder.NopRecorder()), reg: reg, el: el}, nil
}

func (h *silH) maint() (float64, float64) {
	return counter(h.reg, "alertmanager_silences_maintenance_total"), counter(h.reg, "alertmanager_silences_maintenance_errors_total")
}

func (h *silH) proj() (map[string]string, []string) {
	var probs []string
	out := map[string]string{}
	b, err := h.s.MarshalBinary()
	if err != nil {
		return nil, []string{"MarshalBinary: " + err.Error()}
	}
	bs, _, err := bounds(b)
	if err != nil {
		return nil, []string{"MarshalBinary: " + err.Error()}
	}
	exps := map[string]*timestamppb.Timestamp{}
	for i := 0; i+1 < len(bs); i++ {
		var m spb.MeshSilence
		_, n := protowire.ConsumeVarint(b[bs[i]:])
		if err := proto.Unmarshal(b[bs[i]+n:bs[i+1]], &m); err != nil || m.Silence == nil {
			probs = append(probs, fmt.Sprintf("MarshalBinary record %d unreadable", i))
			continue
		}
		if _, dup := out[m.Silence.Id]; dup {
			probs = append(probs, "MarshalBinary: duplicate id "+m.Silence.Id)
		}
		out[m.Silence.Id] = projSil(m.Silence, m.ExpiresAt, false)
		exps[m.Silence.Id] = m.ExpiresAt
	}
	// the same content must be what Query returns
	sils, _, err := h.s.Query(context.Background())
	if err != nil {
		return out, append(probs, "Query: "+err.Error())
	}
	if len(sils) != len(out) {
		probs = append(probs, fmt.Sprintf("Query returns %d silences, MarshalBinary %d", len(sils), len(out)))
	}
	for _, s := range sils {
		if p := projSil(s, exps[s.Id], false); p != out[s.Id] {
			probs = append(probs, fmt.Sprintf("Query and MarshalBinary differ for %s: %s vs %s", s.Id, p, out[s.Id]))
		}
	}
	return out, probs
}

func (h *silH) snapshot(w io.Writer) (int64, error) { return h.s.Snapshot(w) }

func (h *silH) maintenance(iv time.Duration, snapf string, stopc <-chan struct{}) {
	h.s.Maintenance(iv, snapf, stopc, nil)
}

func (h *silH) probe(r rec) string {
	want := r.state == "active"
	for i, ls := range r.muteBy {
		if got := h.mut.Mutes(context.Background(), ls); got != want {
			return fmt.Sprintf("Mutes(%v) = %v for %s silence %s (matcher set %d)", ls, got, r.state, r.key, i)
		}
	}
	return ""
}

func (h *silH) mutate(i int) error {
	now := time.Now()
	return h.s.Set(context.Background(), &spb.Silence{
		MatcherSets: []*spb.MatcherSet{set(eq("a", fmt.Sprintf("api%d", i)), re("b", "x|y"))},
		StartsAt:    timestamppb.New(now),
		EndsAt:      timestamppb.New(now.Add(time.Duration(i+1) * time.Hour)),
		CreatedBy:   "api",
		Comment:     fmt.Sprintf("set %d", i),
		Annotations: map[string]string{"n": strconv.Itoa(i)},
	})
}

// ---------------------------------------------------------------- notification log

type logProj struct {
	GK       string      `json:"gk"`
	Recv     string      `json:"recv"`
	Ts       string      `json:"ts"`
	Exp      string      `json:"exp,omitempty"`
	F        []uint64    `json:"f"`
	R        []uint64    `json:"r"`
	Data     [][2]string `json:"data,omitempty"`
	Hash     string      `json:"hash,omitempty"`
	Resolved bool        `json:"resolved,omitempty"`
}

func projEntry(e *npb.Entry, exp *timestamppb.Timestamp) string {
	p := logProj{GK: string(e.GroupKey), Ts: tstr(e.Timestamp), F: append([]uint64{}, e.FiringAlerts...),
		R: append([]uint64{}, e.ResolvedAlerts...), Hash: hex.EncodeToString(e.GroupHash), Resolved: e.Resolved}
	if e.Receiver != nil {
		p.Recv = fmt.Sprintf("%q/%q/%d", e.Receiver.GroupName, e.Receiver.Integration, e.Receiver.Idx)
	}
	if exp != nil {
		p.Exp = tstr(exp)
	}
	for k, v := range e.ReceiverData {
		var s string
		switch x := v.GetValue().(type) {
		case *npb.ReceiverDataValue_IntVal:
			s = fmt.Sprintf("int:%d", x.IntVal)
		case *npb.ReceiverDataValue_DoubleVal:
			s = fmt.Sprintf("float:%016x", math.Float64bits(x.DoubleVal))
		case *npb.ReceiverDataValue_StrVal:
			s = "str:" + x.StrVal
		default:
			s = "unset"
		}
		p.Data = append(p.Data, [2]string{k, s})
	}
	sort.Slice(p.Data, func(i, j int) bool { return p.Data[i][0] < p.Data[j][0] })
	b, _ := json.Marshal(p)
	return string(b)
}

func logKey(e *npb.Entry) string {
	return fmt.Sprintf("%s:%s/%s/%d", e.GroupKey, e.Receiver.GroupName, e.Receiver.Integration, e.Receiver.Idx)
}

const nLogShapes = 6

func iv(v int64) *npb.ReceiverDataValue {
	return &npb.ReceiverDataValue{Value: &npb.ReceiverDataValue_IntVal{IntVal: v}}
}
func fv(v float64) *npb.ReceiverDataValue {
	return &npb.ReceiverDataValue{Value: &npb.ReceiverDataValue_DoubleVal{DoubleVal: v}}
}
func sv(v string) *npb.ReceiverDataValue {
	return &npb.ReceiverDataValue{Value: &npb.ReceiverDataValue_StrVal{StrVal: v}}
}

// craftEntry is item j of the notification-log catalogue.  Three consecutive items share a
// group key and differ in the receiver integration.
func craftEntry(j int) rec {
	shape := j % nLogShapes
	gk := fmt.Sprintf(`{}/{team="t%d"}:{alertname="A%d"}`, j/3, j/3)
	e := &npb.Entry{
		GroupKey:  []byte(gk),
		Receiver:  &npb.Receiver{GroupName: fmt.Sprintf("team-%d", j/3), Integration: []string{"webhook", "email", "slack"}[j%3], Idx: uint32(j % 3)},
		Timestamp: ts(-time.Duration(j%50)*time.Minute + time.Duration(j%1000)*time.Microsecond + 7),
	}
	switch shape {
	case 0:
		e.FiringAlerts = []uint64{1, 2, uint64(j) + 3}
	case 1:
		e.ResolvedAlerts = []uint64{4, math.MaxUint64 - uint64(j)}
		e.ReceiverData = map[string]*npb.ReceiverDataValue{"count": iv(int64(j)), "min": iv(math.MinInt64), "neg": iv(-1)}
	case 2:
		e.FiringAlerts = []uint64{uint64(j)}
		e.ResolvedAlerts = []uint64{uint64(j) + 1}
		e.ReceiverData = map[string]*npb.ReceiverDataValue{"ratio": fv(1.5), "tiny": fv(-0.25e-300), "big": fv(1e300 + float64(j))}
	case 3:
		e.FiringAlerts = []uint64{9}
		e.ReceiverData = map[string]*npb.ReceiverDataValue{"thread": sv("ts-1700000000.000" + strconv.Itoa(j)), "имя": sv("значение ü😀"), "empty": sv("")}
	case 4:
		e.Receiver.GroupName = fmt.Sprintf("команда-%d", j/3)
		e.Receiver.Idx = 7 + uint32(j%3)
		e.FiringAlerts = []uint64{1, 2, 3, 4, 5, 6, 7, 8}
		e.ResolvedAlerts = []uint64{10, 11}
		e.ReceiverData = map[string]*npb.ReceiverDataValue{"i": iv(42), "f": fv(2.75), "s": sv("x"), "z": iv(0)}
	case 5: // the deprecated fields of old entries
		e.GroupHash = []byte{0, 1, 2, 0xff, byte(j)}
		e.Resolved = true
	}
	exp := timestamppb.New(e.Timestamp.AsTime().Add(retention))
	return rec{key: logKey(e), msg: &npb.MeshEntry{Entry: e, ExpiresAt: exp}, want: projEntry(e, exp), shape: shape}
}

type logH struct {
	l   *nflog.Log
	reg *prometheus.Registry
	el  *errLog
}

func (h *logH) lastError() string { return h.el.get() }

func openLog(file string, rd io.Reader) (handle, error) {
	reg := prometheus.NewRegistry()
	el := &errLog{}
	l, err := nflog.New(nflog.Options{SnapshotFile: file, SnapshotReader: rd, Retention: retention, Metrics: reg, Logger: slog.New(el)})
	if err != nil {
		return nil, err
	}
	return &logH{l: l, reg: reg, el: el}, nil
}

func (h *logH) maint() (float64, float64) {
	return counter(h.reg, "alertmanager_nflog_maintenance_total"), counter(h.reg, "alertmanager_nflog_maintenance_errors_total")
}

func (h *logH) proj() (map[string]string, []string) {
	var probs []string
	out := map[string]string{}
	b, err := h.l.MarshalBinary()
	if err != nil {
		return nil, []string{"MarshalBinary: " + err.Error()}
	}
	bs, _, err := bounds(b)
	if err != nil {
		return nil, []string{"MarshalBinary: " + err.Error()}
	}
	for i := 0; i+1 < len(bs); i++ {
		var m npb.MeshEntry
		_, n := protowire.ConsumeVarint(b[bs[i]:])
		if err := proto.Unmarshal(b[bs[i]+n:bs[i+1]], &m); err != nil || m.Entry == nil || m.Entry.Receiver == nil {
			probs = append(probs, fmt.Sprintf("MarshalBinary record %d unreadable", i))
			continue
		}
		k := logKey(m.Entry)
		if _, dup := out[k]; dup {
			probs = append(probs, "MarshalBinary: duplicate key "+k)
		}
		out[k] = projEntry(m.Entry, m.ExpiresAt)
		// the same content must be what Query returns
		es, err := h.l.Query(nflog.QReceiver(m.Entry.Receiver), nflog.QGroupKey(string(m.Entry.GroupKey)))
		if err != nil || len(es) != 1 {
			probs = append(probs, fmt.Sprintf("Query(%s): %v, %d entries", k, err, len(es)))
		} else if p := projEntry(es[0], m.ExpiresAt); p != out[k] {
			probs = append(probs, fmt.Sprintf("Query and MarshalBinary differ for %s", k))
		}
	}
	return out, probs
}

func (h *logH) snapshot(w io.Writer) (int64, error) { return h.l.Snapshot(w) }

func (h *logH) maintenance(iv time.Duration, snapf string, stopc <-chan struct{}) {
	h.l.Maintenance(iv, snapf, stopc, nil)
}

func (h *logH) probe(r rec) string {
	e := r.msg.(*npb.MeshEntry).Entry
	es, err := h.l.Query(nflog.QReceiver(e.Receiver), nflog.QGroupKey(string(e.GroupKey)))
	if err != nil || len(es) != 1 {
		return fmt.Sprintf("Query(%s) after restart: err=%v, %d entries", r.key, err, len(es))
	}
	if p := projEntry(es[0], r.msg.(*npb.MeshEntry).ExpiresAt); p != r.want {
		return fmt.Sprintf("Query(%s) after restart returns %s want %s", r.key, p, r.want)
	}
	return ""
}

func (h *logH) mutate(i int) error {
	st := nflog.NewStore(nil)
	st.SetInt("n", int64(i))
	st.SetFloat("f", float64(i)/4)
	st.SetStr("s", fmt.Sprintf("é%d", i))
	return h.l.Log(&npb.Receiver{GroupName: "api", Integration: "webhook", Idx: uint32(i)}, fmt.Sprintf("{}:{api=\"%d\"}", i),
		[]uint64{uint64(i), 77}, []uint64{uint64(i) + 100}, st, 0)
}

// ---------------------------------------------------------------- helpers

func sameProj(a, b map[string]string) string {
	for k, v := range a {
		w, ok := b[k]
		if !ok {
			return "missing " + k
		}
		if v != w {
			return fmt.Sprintf("content of %s differs: %s vs %s", k, v, w)
		}
	}
	for k := range b {
		if _, ok := a[k]; !ok {
			return "extra " + k
		}
	}
	return ""
}

func wantProj(rs []rec) map[string]string {
	m := map[string]string{}
	for _, r := range rs {
		m[r.key] = r.want
	}
	return m
}

func scratch(t testing.TB, sub string) string {
	d := *workDir
	if d == "" {
		d = os.Getenv("C11_WORK")
	}
	if d == "" {
		t.Fatal("-work not set")
	}
	d = filepath.Join(d, sub)
	if err := os.MkdirAll(d, 0o755); err != nil {
		t.Fatal(err)
	}
	return d
}

func contains(l []string, x string) bool {
	for _, y := range l {
		if x == y {
			return true
		}
	}
	return false
}

func short(s string, n int) string {
	if len(s) > n {
		return s[:n] + "..."
	}
	return s
}

// genItems is the store captured by the snapshot of generation g (n records): consecutive
// generations overlap, as real consecutive snapshots do.
func genItems(k *kind, g, n int) []rec {
	var rs []rec
	for j := g; j < g+n; j++ {
		rs = append(rs, k.craft(j))
	}
	return rs
}

// ---------------------------------------------------------------- (a) child process

// The helper runs the real Maintenance under virtual time: scenario
//
//	one   : shutdown snapshot only (3 records)
//	empty : shutdown snapshot of an empty store
//	big   : shutdown snapshot of 5000 records
//	seq   : tick (snapshot 1), API writes, tick (snapshot 2), shutdown snapshot 3 with GC
//	huge  : shutdown snapshot of 60000 records (thorough)
//	seq6  : five ticks with API writes between them and a GC, shutdown snapshot (thorough)
//	wfail_tick : tick (snapshot 1 completes), 60 API writes, then the file-size limit of the
//	        process is set to 4096 bytes (SIGXFSZ ignored) so that the write of the next
//	        snapshot stores a prefix and fails with EFBIG; tick (snapshot 2 fails); the
//	        process is killed (SIGKILL)
//	wfail_shut : the same, the failing snapshot is the shutdown snapshot; normal exit
func TestHelperSnapshot(t *testing.T) {
	mode := os.Getenv("C11_HELPER")
	if mode == "" {
		t.Skip("helper of TestRecordOps")
	}
	dir := os.Getenv("C11_DIR")
	parts := strings.Split(mode, ":")
	k, scn := kindOf(parts[0]), parts[1]
	snap := filepath.Join(dir, k.name)
	synctest.Test(t, func(t *testing.T) {
		var items []rec
		switch scn {
		case "one":
			items = genItems(k, 1, 3)
		case "big":
			items = genItems(k, 0, 5000)
		case "huge":
			items = genItems(k, 0, 60000)
		case "seq", "seq6":
			items = genItems(k, 1, 3)
			items = append(items, shortLived(k))
		case "wfail_tick", "wfail_shut":
			items = genItems(k, 1, 3)
		}
		h, err := k.open("", bytes.NewReader(encode(items)))
		if err != nil {
			t.Fatal(err)
		}
		stopc, done := make(chan struct{}), make(chan struct{})
		go func() { h.maintenance(time.Minute, snap, stopc); close(done) }()
		if scn == "seq" {
			time.Sleep(90 * time.Second) // tick at 1m: snapshot 1
			synctest.Wait()
			for i := 0; i < 2; i++ {
				if err := h.mutate(i); err != nil {
					t.Fatal(err)
				}
			}
			time.Sleep(60 * time.Second) // tick at 2m: snapshot 2; the short-lived record expires at 2m15s
			synctest.Wait()
		}
		if strings.HasPrefix(scn, "wfail") {
			time.Sleep(90 * time.Second) // tick at 1m: snapshot 1 completes
			synctest.Wait()
			prev, probs := h.proj() // the state captured by the last completed snapshot
			for i := 0; i < 60; i++ {
				if err := h.mutate(i); err != nil {
					t.Fatal(err)
				}
			}
			all, _ := h.proj()
			restore, err := limitFileSize(4096)
			if err != nil {
				t.Fatal(err)
			}
			if scn == "wfail_tick" {
				time.Sleep(60 * time.Second) // tick at 2m: the write of snapshot 2 fails
				synctest.Wait()
			} else {
				close(stopc) // the write of the shutdown snapshot fails
				<-done
			}
			restore()
			passes, errs := h.maint()
			b, _ := json.Marshal(map[string]any{"state": prev, "problems": probs, "passes": passes, "failed_passes": errs, "records_in_store": len(all)})
			if err := os.WriteFile(filepath.Join(dir, "child_state.json"), b, 0o644); err != nil {
				t.Fatal(err)
			}
			if scn == "wfail_tick" {
				syscall.Kill(os.Getpid(), syscall.SIGKILL) // the process is killed: no shutdown snapshot
				select {}
			}
			return
		}
		if scn == "seq6" { // five ticks, API writes between them, GC of the short-lived record at the third
			for c := 0; c < 5; c++ {
				time.Sleep(60 * time.Second)
				synctest.Wait()
				if err := h.mutate(c); err != nil {
					t.Fatal(err)
				}
			}
		}
		close(stopc) // shutdown snapshot (GC first)
		<-done
		p, probs := h.proj()
		b, _ := json.Marshal(map[string]any{"state": p, "problems": probs})
		if err := os.WriteFile(filepath.Join(dir, "child_state.json"), b, 0o644); err != nil {
			t.Fatal(err)
		}
	})
}

// limitFileSize makes every write beyond n bytes of a file fail with EFBIG (RLIMIT_FSIZE, with
// SIGXFSZ ignored): the fault "a write stores a prefix and returns an error" on the real code.
func limitFileSize(n uint64) (restore func(), err error) {
	signal.Ignore(syscall.SIGXFSZ)
	var old syscall.Rlimit
	if err := syscall.Getrlimit(syscall.RLIMIT_FSIZE, &old); err != nil {
		return nil, err
	}
	if err := syscall.Setrlimit(syscall.RLIMIT_FSIZE, &syscall.Rlimit{Cur: n, Max: old.Max}); err != nil {
		return nil, err
	}
	return func() { syscall.Setrlimit(syscall.RLIMIT_FSIZE, &old) }, nil
}

// shortLived is a record that the GC of the shutdown snapshot removes (expires at 2m15s).
func shortLived(k *kind) rec {
	r := k.craft(900)
	switch m := r.msg.(type) {
	case *spb.MeshSilence:
		m.Silence.StartsAt, m.Silence.EndsAt, m.ExpiresAt = ts(-time.Hour), ts(time.Minute), ts(135*time.Second)
	case *npb.MeshEntry:
		m.ExpiresAt = ts(135 * time.Second)
	}
	return r
}

// ---------------------------------------------------------------- (a) recording and abstraction

type absOp struct {
	Op    string `json:"op"` // create write writefail fsync close rename unlink dirsync
	A     string `json:"a"`
	B     string `json:"b"`
	N     int    `json:"n"` // write: units of the specification
	G     int    `json:"g"`
	Bytes int64  `json:"bytes,omitempty"`
	Req   int64  `json:"req,omitempty"` // write: number of bytes the caller asked to write
	Flags string `json:"flags,omitempty"`
	DA    string `json:"da"` // directory of a ("data" = the directory of the snapshot)
	DB    string `json:"db"` // rename: directory of b
}

type recording struct {
	Kind        string   `json:"kind"`
	Scenario    string   `json:"scenario"`
	StraceOK    bool     `json:"strace_ok"`
	StraceErr   string   `json:"strace_err,omitempty"`
	Raw         []string `json:"raw"`
	Ops         []absOp  `json:"ops"`
	Recs        []int    `json:"recs"`   // records per generation in the model (index 0 = snapshot on disk before)
	Failed      []int    `json:"failed"` // generations whose write failed
	FaultWanted bool     `json:"fault_wanted"`
	ShapeErrors []string `json:"shape_errors"`
	Writes      []int    `json:"writes_per_snapshot"`
	ByteCounts  []int64  `json:"bytes_per_snapshot"`
	FinalOK     bool     `json:"final_ok"`
	FinalErr    string   `json:"final_err,omitempty"`
	Leftovers   []string `json:"leftover_files,omitempty"`
	Records     int      `json:"records_in_final"`
}

var (
	reLine    = regexp.MustCompile(`^(\d+)\s+(\w+)\((.*)\)\s+=\s+(-?\d+)(.*)$`)
	reUnfin   = regexp.MustCompile(`^(\d+)\s+(\w+)\((.*) <unfinished \.\.\.>$`)
	reResumed = regexp.MustCompile(`^(\d+)\s+<\.\.\. (\w+) resumed>(.*)$`)
	reQuoted  = regexp.MustCompile(`"((?:[^"\\]|\\.)*)"`)
	reFd      = regexp.MustCompile(`^(\d+)`)
)

// parseStrace keeps the calls that touch the snapshot path (snap, snap.<suffix>) or fsync
// the data directory, in completion order.
func parseStrace(path, dir, snap string) (raw []string, ops []absOp, err error) {
	f, err := os.Open(path)
	if err != nil {
		return nil, nil, err
	}
	defer f.Close()
	pending := map[string]string{}
	fds := map[string]string{} // fd -> real path at open
	abs := func(p string) string {
		if !filepath.IsAbs(p) {
			p = filepath.Join(dir, p)
		}
		return filepath.Clean(p)
	}
	// a snapshot file: the snapshot path, its siblings <path>.<suffix>, and - wherever it is - every
	// file that the writer renames (or tries to rename) onto the snapshot path
	renSrc := map[string]bool{}
	isSnap := func(p string) bool { return p == snap || strings.HasPrefix(p, snap+".") || renSrc[p] }
	var lines []string
	sc := bufio.NewScanner(f)
	sc.Buffer(make([]byte, 1<<20), 1<<24)
	for sc.Scan() {
		line := sc.Text()
		if m := reUnfin.FindStringSubmatch(line); m != nil {
			pending[m[1]] = m[1] + "  " + m[2] + "(" + m[3]
			continue
		}
		if m := reResumed.FindStringSubmatch(line); m != nil {
			line = pending[m[1]] + m[3]
			delete(pending, m[1])
		}
		lines = append(lines, line)
		if m := reLine.FindStringSubmatch(line); m != nil && strings.HasPrefix(m[2], "rename") {
			if strs := reQuoted.FindAllStringSubmatch(m[3], -1); len(strs) >= 2 && abs(strs[1][1]) == snap {
				renSrc[abs(strs[0][1])] = true
			}
		}
	}
	if err := sc.Err(); err != nil {
		return nil, nil, err
	}
	for _, line := range lines {
		m := reLine.FindStringSubmatch(line)
		if m == nil {
			continue
		}
		call, args, ret := m[2], m[3], m[4]
		strs := reQuoted.FindAllStringSubmatch(args, -1)
		fd := ""
		if x := reFd.FindStringSubmatch(args); x != nil {
			fd = x[1]
		}
		if strings.HasPrefix(ret, "-") {
			// a failing write on a snapshot file is the fault WriteFail of the specification
			if p, ok := fds[fd]; ok && isSnap(p) && (call == "write" || call == "pwrite64" || call == "writev") {
				raw = append(raw, line)
				ops = append(ops, absOp{Op: "writefail", A: p, Req: lastInt(args), Flags: strings.TrimSpace(m[5])})
			}
			// a failing rename of a snapshot file: the snapshot is not delivered
			if strings.HasPrefix(call, "rename") && len(strs) >= 2 {
				if a, b := abs(strs[0][1]), abs(strs[1][1]); isSnap(a) || isSnap(b) {
					raw = append(raw, line)
					ops = append(ops, absOp{Op: "renamefail", A: a, B: b, Flags: strings.TrimSpace(m[5])})
				}
			}
			continue
		}
		switch call {
		case "openat", "open", "creat":
			if len(strs) == 0 {
				continue
			}
			p := abs(strs[0][1])
			if p == filepath.Clean(dir) {
				fds[ret] = p
				continue
			}
			if !isSnap(p) {
				delete(fds, ret)
				continue
			}
			fds[ret] = p
			raw = append(raw, line)
			flags := ""
			if i := strings.LastIndex(args, "\", "); i >= 0 {
				flags = strings.SplitN(args[i+3:], ",", 2)[0]
			}
			if strings.Contains(flags, "O_CREAT") || strings.Contains(flags, "O_TRUNC") || call == "creat" {
				ops = append(ops, absOp{Op: "create", A: p, Flags: flags})
			} else if strings.Contains(flags, "O_WRONLY") || strings.Contains(flags, "O_RDWR") {
				ops = append(ops, absOp{Op: "openw", A: p, Flags: flags})
			}
		case "write", "pwrite64", "writev":
			if p, ok := fds[fd]; ok && isSnap(p) {
				raw = append(raw, line)
				n, _ := strconv.ParseInt(ret, 10, 64)
				ops = append(ops, absOp{Op: "write", A: p, Bytes: n, Req: lastInt(args)})
			}
		case "fsync", "fdatasync":
			if p, ok := fds[fd]; ok {
				raw = append(raw, line)
				if isSnap(p) {
					ops = append(ops, absOp{Op: "fsync", A: p})
				} else {
					ops = append(ops, absOp{Op: "dirsync"})
				}
			}
		case "close":
			if p, ok := fds[fd]; ok {
				if isSnap(p) {
					raw = append(raw, line)
					ops = append(ops, absOp{Op: "close", A: p})
				}
				delete(fds, fd)
			}
		case "rename", "renameat", "renameat2":
			if len(strs) >= 2 {
				a, b := abs(strs[0][1]), abs(strs[1][1])
				if isSnap(a) || isSnap(b) {
					raw = append(raw, line)
					ops = append(ops, absOp{Op: "rename", A: a, B: b})
				}
			}
		case "unlink", "unlinkat":
			if len(strs) >= 1 && isSnap(abs(strs[0][1])) {
				raw = append(raw, line)
				ops = append(ops, absOp{Op: "unlink", A: abs(strs[0][1])})
			}
		}
	}
	return raw, ops, nil
}

// lastInt is the last argument of a call (the byte count of write).
func lastInt(args string) int64 {
	i := strings.LastIndex(args, ",")
	n, _ := strconv.ParseInt(strings.TrimSpace(args[i+1:]), 10, 64)
	return n
}

// abstract maps real paths to the names of the specification (final, tmp1, tmp2, ...; a
// handle keeps the name its file had when it was opened), numbers the snapshots
// (generation = number of create calls so far) and scales write sizes to units.
// cut says how the prefix a failed snapshot left behind ends, when the file could be inspected:
// "torn" (inside a record), "boundary" (whole records only) or "" (unknown: proportional).
func abstract(in []absOp, snap, cut string) (ops []absOp, recs []int, writes []int, byteCounts []int64, failed []int) {
	names := map[string]string{snap: "final"}
	name := func(p string) string {
		if p == "" {
			return ""
		}
		if n, ok := names[p]; ok {
			return n
		}
		names[p] = fmt.Sprintf("tmp%d", len(names))
		return names[p]
	}
	dirs := map[string]string{filepath.Dir(snap): "data"}
	dirName := func(p string) string {
		if p == "" {
			return ""
		}
		d := filepath.Dir(p)
		if n, ok := dirs[d]; ok {
			return n
		}
		dirs[d] = fmt.Sprintf("dir%d", len(dirs))
		return dirs[d]
	}
	g := 0
	for _, o := range in {
		if o.Op == "create" || o.Op == "openw" {
			g++
			o.Op = "create"
		}
		o.DA, o.DB = dirName(o.A), dirName(o.B)
		o.A, o.B = name(o.A), name(o.B)
		o.G = g
		if o.G == 0 {
			o.G = 1
		}
		ops = append(ops, o)
	}
	if g == 0 {
		g = 1
	}
	recs = []int{2}
	writes = make([]int, g+1)
	byteCounts = make([]int64, g+1)
	total := make([]int64, g+1) // bytes of the whole snapshot
	isFailed := make([]bool, g+1)
	first := make([]bool, g+1)
	for _, o := range ops {
		if (o.Op == "write" || o.Op == "writefail") && !first[o.G] {
			first[o.G] = true
			total[o.G] = o.Req // the first write call is given the whole snapshot
		}
		if o.Op == "write" {
			writes[o.G]++
			byteCounts[o.G] += o.Bytes
		}
		if o.Op == "writefail" && !isFailed[o.G] {
			isFailed[o.G] = true
			failed = append(failed, o.G)
		}
	}
	for x := 1; x <= g; x++ {
		if !isFailed[x] || total[x] < byteCounts[x] {
			total[x] = byteCounts[x]
		}
		n := 3 - (x+1)%2 // 3, 2, 3, ...
		if total[x] == 0 {
			n = 0
		}
		recs = append(recs, n)
	}
	// scale: a write ending at byte offset e of T ends at unit floor(e*units/T); the last ends at units
	off := make([]int64, g+1)
	last := make([]int, g+1)
	seen := make([]int, g+1)
	for i := range ops {
		o := &ops[i]
		if o.Op != "write" {
			continue
		}
		x := o.G
		off[x] += o.Bytes
		seen[x]++
		units := recs[x] * unitsPer
		end := int(off[x] * int64(units) / total[x])
		if seen[x] == writes[x] && !isFailed[x] {
			end = units
		} else if end >= units {
			end = units - 1 // a failed snapshot is a proper prefix
		}
		if end < last[x] {
			end = last[x]
		}
		o.N = end - last[x]
		last[x] = end
	}
	for _, x := range failed {
		for i := len(ops) - 1; i >= 0; i-- {
			if o := &ops[i]; o.Op == "write" && o.G == x {
				units := recs[x] * unitsPer
				switch {
				case cut == "torn" && last[x]%unitsPer == 0 && last[x]+2 < units:
					o.N += 2
				case cut == "boundary" && last[x]%unitsPer != 0:
					o.N -= last[x] % unitsPer
				}
				break
			}
		}
	}
	return ops, recs, writes[1:], byteCounts[1:], failed
}

// shapeErrors: what every snapshot must look like on the wire: written to a file that is not
// the final one, fsynced after its last write and before it is renamed onto the final name.
const partialRename = "partial-rename: "

func shapeErrors(ops []absOp) (errs []string) {
	maxG := 0
	for _, o := range ops {
		if o.G > maxG {
			maxG = o.G
		}
		if o.A == "final" && (o.Op == "create" || o.Op == "write" || o.Op == "unlink") {
			errs = append(errs, fmt.Sprintf("snapshot %d: %s on the final file itself (not atomic)", o.G, o.Op))
		}
	}
	for g := 1; g <= maxG; g++ {
		created, lastWrite, renameAt, failAt, renFail := "", -1, -1, -1, -1
		var syncs []int
		var stored int64
		for i, o := range ops {
			if o.G != g {
				continue
			}
			if o.Op == "write" {
				stored += o.Bytes
			}
			switch {
			case o.Op == "writefail" && failAt < 0:
				failAt = i
			case o.Op == "renamefail" && o.B == "final" && renFail < 0:
				renFail = i
			case o.Op == "create" && created == "":
				created = o.A
			case o.Op == "write" && o.A == created && o.Bytes > 0:
				lastWrite = i
			case o.Op == "fsync" && o.A == created:
				syncs = append(syncs, i)
			case o.Op == "rename" && o.A == created && o.B == "final" && renameAt < 0:
				renameAt = i
			}
		}
		if created == "" {
			errs = append(errs, fmt.Sprintf("snapshot %d: no file created", g))
			continue
		}
		if created == "final" {
			continue
		}
		if failAt >= 0 {
			// the write failed: what the file holds is a prefix and must not get the final name
			if renameAt > failAt {
				errs = append(errs, fmt.Sprintf("%ssnapshot %d: its write failed (%s) after %d bytes were stored, and %s is then renamed onto the final name",
					partialRename, g, ops[failAt].Flags, stored, created))
			}
			continue
		}
		if renameAt < 0 && renFail >= 0 {
			o := ops[renFail]
			errs = append(errs, fmt.Sprintf("snapshot %d: the rename of %s (directory %s) onto the final name (directory %s) fails with %s: the snapshot never appears under the final name",
				g, created, o.DA, o.DB, o.Flags))
			continue
		}
		if renameAt < 0 {
			errs = append(errs, fmt.Sprintf("snapshot %d: %s is never renamed onto the final name", g, created))
			continue
		}
		if lastWrite >= 0 {
			ok := false
			for _, s := range syncs {
				if s > lastWrite && s < renameAt {
					ok = true
				}
			}
			if lastWrite > renameAt {
				errs = append(errs, fmt.Sprintf("snapshot %d: data written after the rename onto the final name", g))
			} else if !ok {
				errs = append(errs, fmt.Sprintf("snapshot %d: no fsync of %s between its last write and the rename onto the final name", g, created))
			}
		}
	}
	return errs
}

func TestRecordOps(t *testing.T) {
	res := hx.NewResult()
	defer res.Write()
	crossDevice(t, res)
	base := scratch(t, "rec")
	var recsOut []recording
	scns := []string{"one", "empty", "big", "seq", "wfail_tick", "wfail_shut"}
	if *tier == "thorough" {
		scns = append(scns, "huge", "seq6")
	}
	for _, k := range kinds {
		for _, scn := range scns {
			r := recording{Kind: k.name, Scenario: scn, ShapeErrors: []string{}}
			dir := filepath.Join(base, k.name+"_"+scn)
			os.RemoveAll(dir)
			os.MkdirAll(dir, 0o755)
			snap := filepath.Join(dir, k.name)
			tr := filepath.Join(dir, "strace.txt")
			cmd := exec.Command("strace", "-f", "-y", "-s", "0",
				"-e", "trace=open,openat,creat,write,pwrite64,writev,fsync,fdatasync,close,rename,renameat,renameat2,unlink,unlinkat",
				"-o", tr, os.Args[0], "-test.run", "^TestHelperSnapshot$", "-test.count", "1", "-test.timeout", "120s")
			cmd.Env = append(os.Environ(), "C11_HELPER="+k.name+":"+scn, "C11_DIR="+dir)
			out, err := cmd.CombinedOutput()
			if scn == "wfail_tick" && err != nil && strings.Contains(err.Error(), "killed") {
				err = nil // the scenario ends with SIGKILL
			}
			if _, serr := os.Stat(filepath.Join(dir, "child_state.json")); err != nil || serr != nil {
				r.StraceErr = fmt.Sprintf("%v: %s", err, short(string(out), 1500))
				recsOut = append(recsOut, r)
				res.Notes = append(res.Notes, "strace run failed: "+r.StraceErr)
				continue
			}
			raw, ops, err := parseStrace(tr, dir, snap)
			if err != nil || len(raw) == 0 {
				r.StraceErr = fmt.Sprintf("no file-system call on %s in the strace output (err=%v)", snap, err)
				recsOut = append(recsOut, r)
				res.Notes = append(res.Notes, r.StraceErr)
				continue
			}
			r.StraceOK = true
			r.Raw = raw
			// the prefix a failed snapshot left under the final name: cut inside a record or not
			cut := ""
			if b, err := os.ReadFile(snap); err == nil && strings.HasPrefix(scn, "wfail") {
				if _, _, berr := bounds(b); berr != nil {
					cut = "torn"
				} else {
					cut = "boundary"
				}
			}
			r.Ops, r.Recs, r.Writes, r.ByteCounts, r.Failed = abstract(ops, snap, cut)
			r.FaultWanted = strings.HasPrefix(scn, "wfail")
			r.ShapeErrors = append(r.ShapeErrors, shapeErrors(r.Ops)...)
			res.Cases++
			res.Steps += len(r.Ops)
			res.Count("snapshots_recorded", len(r.Writes))
			for _, w := range r.Writes {
				if w > 1 {
					res.Count("multi_write_snapshots", 1)
				}
			}
			for _, e := range r.ShapeErrors {
				class := ""
				if strings.HasPrefix(e, partialRename) {
					class, e = "partial-rename", strings.TrimPrefix(e, partialRename)
				}
				res.Add(hx.Mismatch{Case: len(recsOut), What: "shape", Class: class, Got: k.name + "/" + scn + ": " + e, Replay: hx.J(r.Ops)})
			}
			if r.FaultWanted {
				res.Count("write_faults_wanted", 1)
				if len(r.Failed) > 0 {
					res.Count("write_faults_injected", 1)
				}
			}
			// the completed shutdown snapshot must reproduce the state the child held
			var child struct {
				State    map[string]string `json:"state"`
				Problems []string          `json:"problems"`
				Passes   float64           `json:"passes"`
				FailedP  float64           `json:"failed_passes"`
				InStore  int               `json:"records_in_store"`
			}
			wfail := len(r.Failed) > 0
			what, class := "completed snapshot", ""
			if wfail {
				// the last COMPLETED snapshot is the one before the failed one: that is what the
				// child recorded, and what the next start must load
				what, class = "failed snapshot write replaces the last completed snapshot", "partial-rename"
			}
			want := child.State
			if b, err := os.ReadFile(filepath.Join(dir, "child_state.json")); err != nil || json.Unmarshal(b, &child) != nil {
				r.FinalErr = "child wrote no state"
				res.Notes = append(res.Notes, k.name+"/"+scn+": child wrote no state")
			} else if want = child.State; len(child.Problems) > 0 {
				r.FinalErr = "the store that was snapshotted is inconsistent: " + child.Problems[0]
			} else if h, err := k.open(snap, nil); err != nil {
				r.FinalErr = "start-up error on the completed snapshot: " + err.Error()
				if wfail {
					r.FinalErr = fmt.Sprintf("the next start refuses the file: %v (a snapshot of %d records had completed; then the write of a snapshot of %d records failed in %v of %v maintenance passes)",
						err, len(want), child.InStore, child.FailedP, child.Passes)
				}
			} else {
				got, probs := h.proj()
				if d := sameProj(want, got); d != "" {
					r.FinalErr = "state loaded from the completed snapshot differs from the state snapshotted: " + d
					if wfail {
						r.FinalErr = fmt.Sprintf("the next start loads %d records, neither the %d of the last completed snapshot nor the %d of the store: %s", len(got), len(want), child.InStore, short(d, 300))
					}
				} else if len(probs) > 0 {
					r.FinalErr = probs[0]
				} else {
					r.FinalOK = true
				}
				r.Records = len(got)
			}
			if fi, err := os.Stat(snap); err != nil {
				r.FinalOK = false
				r.FinalErr = "no snapshot file after Maintenance returned: " + err.Error()
			} else if n := r.ByteCounts[len(r.ByteCounts)-1]; r.FinalOK && !wfail && fi.Size() != n {
				r.FinalOK = false
				r.FinalErr = fmt.Sprintf("snapshot file has %d bytes, the last snapshot wrote %d", fi.Size(), n)
			}
			if !r.FinalOK && r.FinalErr != "child wrote no state" {
				res.Add(hx.Mismatch{Case: len(recsOut), What: what, Class: class, Got: k.name + "/" + scn + ": " + r.FinalErr, Replay: hx.J(r.Ops)})
			}
			es, _ := os.ReadDir(dir)
			for _, e := range es {
				if strings.HasPrefix(e.Name(), k.name+".") {
					r.Leftovers = append(r.Leftovers, e.Name())
				}
			}
			if (strings.HasPrefix(scn, "seq") && len(r.Writes) >= 2) || wfail {
				res.Nontrivial++
			}
			if wfail && r.FinalOK {
				res.Count("write_fault_keeps_last_completed_snapshot", 1)
			}
			recsOut = append(recsOut, r)
		}
	}
	if *hx.Trace != "" {
		b, _ := json.MarshalIndent(recsOut, "", " ")
		if err := os.WriteFile(*hx.Trace, b, 0o644); err != nil {
			t.Fatal(err)
		}
	}
	for _, r := range recsOut {
		if r.StraceOK {
			res.Sample(hx.J(map[string]any{"kind": r.Kind, "scenario": r.Scenario, "ops": r.Ops, "bytes": r.ByteCounts}))
			break
		}
	}
}

// ---------------------------------------------------------------- (b) post-crash states

type fileState struct {
	Present bool     `json:"present"`
	C       [][2]int `json:"c"`
}

type loadRes struct {
	Err  bool     `json:"err"`
	Recs [][2]int `json:"recs"`
}

type crashState struct {
	Src   string               `json:"src"`
	Kinds []string             `json:"kinds"`
	At    int                  `json:"at"`
	Kd    int                  `json:"kd"`
	Hp    bool                 `json:"hp"`
	Begun int                  `json:"begun"`
	Done  int                  `json:"done"`
	Files map[string]fileState `json:"files"`
	Adm   []int                `json:"adm"`
	Load  map[string]loadRes   `json:"load"`
	NRec  []int                `json:"nrec"`
	U     int                  `json:"u"`
}

// genBytes: the snapshot of generation g as the real writer produces it, its record
// boundaries and the records in file order.
type genSnap struct {
	b     []byte
	bs    []int
	items []rec // in file order
	proj  map[string]string
}

// curRes receives mismatches found while a store is prepared.
var curRes *hx.Result

func makeGen(t testing.TB, k *kind, g, n int) *genSnap {
	items := genItems(k, g, n)
	h, err := k.open("", bytes.NewReader(encode(items)))
	if err != nil {
		t.Fatal(err)
	}
	var buf bytes.Buffer
	if _, err := h.snapshot(&buf); err != nil {
		t.Fatal(err)
	}
	gs := &genSnap{b: buf.Bytes(), proj: wantProj(items)}
	var e error
	if gs.bs, _, e = bounds(gs.b); e != nil || len(gs.bs) != n+1 {
		if curRes == nil {
			t.Fatalf("real Snapshot of %d records is not %d whole records: %v", n, n, e)
		}
		curRes.Add(hx.Mismatch{Case: g, What: "Snapshot does not write the whole store",
			Got: fmt.Sprintf("%s: store of %d records, Snapshot wrote %d whole records (%v)", k.name, n, len(gs.bs)-1, e)})
		gs.b = encode(items) // go on with the records as the format defines them
		gs.bs, _, _ = bounds(gs.b)
	}
	// file order (Go map iteration) -> items
	for i := 0; i < n; i++ {
		key := recordKey(k, gs.b[gs.bs[i]:gs.bs[i+1]])
		found := false
		for _, it := range items {
			if it.key == key {
				gs.items = append(gs.items, it)
				found = true
			}
		}
		if !found {
			t.Fatalf("record %d of the real snapshot has unknown key %q", i, key)
		}
	}
	return gs
}

func recordKey(k *kind, r []byte) string {
	_, n := protowire.ConsumeVarint(r)
	if k.name == "silences" {
		var m spb.MeshSilence
		if proto.Unmarshal(r[n:], &m) != nil || m.Silence == nil {
			return ""
		}
		return m.Silence.Id
	}
	var m npb.MeshEntry
	if proto.Unmarshal(r[n:], &m) != nil || m.Entry == nil || m.Entry.Receiver == nil {
		return ""
	}
	return logKey(m.Entry)
}

// piece returns the bytes of unit i (1-based) of a generation: record (i-1)/U cut at
// 0, 1, len/2, len-1, len.
func (gs *genSnap) piece(i int) []byte {
	k, c := (i-1)/unitsPer, (i-1)%unitsPer
	r := gs.b[gs.bs[k]:gs.bs[k+1]]
	cuts := []int{0, 1, len(r) / 2, len(r) - 1, len(r)}
	return r[cuts[c]:cuts[c+1]]
}

func TestCrashStates(t *testing.T) {
	res := hx.NewResult()
	defer res.Write()
	curRes = res
	base := scratch(t, "crash")
	type gk struct {
		k    string
		g, n int
	}
	gens := map[gk]*genSnap{}
	gen := func(k *kind, g, n int) *genSnap {
		key := gk{k.name, g, n}
		if gens[key] == nil {
			gens[key] = makeGen(t, k, g, n)
		}
		return gens[key]
	}
	distinct := map[string]bool{}
	synctest.Test(t, func(t *testing.T) { crashStates(t, res, base, gen, distinct) })
	res.Count("distinct_outcomes", len(distinct))
}

func crashStates(t *testing.T, res *hx.Result, base string, gen func(k *kind, g, n int) *genSnap, distinct map[string]bool) {
	err := hx.Lines(*hx.In, func(i int, line []byte) error {
		var cs crashState
		if err := json.Unmarshal(line, &cs); err != nil {
			return fmt.Errorf("line %d: %v", i, err)
		}
		if cs.U != unitsPer {
			return fmt.Errorf("line %d: U = %d, the harness is built for %d", i, cs.U, unitsPer)
		}
		for _, k := range kinds {
			if len(cs.Kinds) > 0 && !contains(cs.Kinds, k.name) {
				continue
			}
			res.Cases++
			dir := filepath.Join(base, fmt.Sprintf("%s_%d", k.name, i))
			os.RemoveAll(dir)
			os.MkdirAll(dir, 0o755)
			content := func(fs fileState) []byte {
				var b []byte
				for _, u := range fs.C {
					if u[0] == 0 && u[1] == 0 {
						b = append(b, 0, 0, 0)
					} else {
						b = append(b, gen(k, u[0], cs.NRec[u[0]]).piece(u[1])...)
					}
				}
				return b
			}
			paths := map[string]string{}
			for name, fs := range cs.Files {
				if !fs.Present {
					continue
				}
				p := filepath.Join(dir, k.name)
				if name != "final" {
					p += "." + hex.EncodeToString([]byte(name))
				}
				paths[name] = p
				if err := os.WriteFile(p, content(fs), 0o644); err != nil {
					return err
				}
			}
			os.WriteFile(filepath.Join(dir, k.name+".0badc0de"), []byte{0xff, 0x01, 0x02}, 0o644) // debris of an older crash
			bad := false
			fail := func(what, got string) {
				bad = true
				res.Add(hx.Mismatch{Case: i, Step: cs.At, What: what, Got: k.name + ": " + got,
					Want: fmt.Sprintf("state of one of the snapshots %v", cs.Adm), Replay: json.RawMessage(line)})
			}
			// the next start
			h, err := k.open(filepath.Join(dir, k.name), nil)
			var got map[string]string
			if err != nil {
				fail("start-up error after crash", err.Error())
			} else {
				var probs []string
				got, probs = h.proj()
				adm := false
				for _, g := range cs.Adm {
					want := map[string]string{}
					if g > 0 || cs.Hp {
						want = gen(k, g, cs.NRec[g]).proj
					}
					if sameProj(want, got) == "" {
						adm = true
						if g > 0 {
							distinct[fmt.Sprintf("%s/g%d/hp%v", k.name, g, cs.Hp)] = true
						}
					}
				}
				if !adm {
					keys := []string{}
					for key := range got {
						keys = append(keys, key)
					}
					sort.Strings(keys)
					fail("state after crash is not the state of a snapshot", fmt.Sprintf("%d records loaded: %s", len(got), short(strings.Join(keys, ","), 400)))
				} else if len(probs) > 0 {
					fail("state after crash inconsistent", probs[0])
				}
				// effect: every record of the loaded state still works
				if adm {
					for _, g := range cs.Adm {
						if g == 0 && !cs.Hp {
							continue
						}
						gs := gen(k, g, cs.NRec[g])
						if sameProj(gs.proj, got) != "" {
							continue
						}
						for _, it := range gs.items {
							if p := h.probe(it); p != "" {
								fail("record without effect after crash", p)
							}
							res.Count("probes", 1)
						}
						break
					}
				}
			}
			// conformance of the loader with the specification's loader
			cmp := func(name, p string) {
				want := cs.Load[name]
				hh, err := k.open(p, nil)
				pure := true
				for x, u := range cs.Files[name].C {
					if u[1] != x+1 || u[0] != cs.Files[name].C[0][0] {
						pure = false
					}
				}
				if !pure {
					res.Count("zero_filled_or_mixed_files_loaded", 1)
					return // what a loader makes of zero-filled or overwritten data is not fixed by the statement
				}
				res.Steps++
				if want.Err {
					res.Count("loader_expected_error", 1)
					if err == nil {
						pp, _ := hh.proj()
						res.Add(hx.Mismatch{Case: i, Step: cs.At, What: "loader accepts a torn file", Class: "loader",
							Got:  fmt.Sprintf("%s: file %s cut inside a record loads without error as %d records", k.name, name, len(pp)),
							Want: "error (truncated record)", Replay: json.RawMessage(line)})
						bad = true
					}
					return
				}
				exp := map[string]string{}
				for _, r := range want.Recs {
					it := gen(k, r[0], cs.NRec[r[0]]).items[r[1]]
					exp[it.key] = it.want
				}
				if err != nil {
					res.Add(hx.Mismatch{Case: i, Step: cs.At, What: "loader refuses whole records", Class: "loader",
						Got: k.name + ": " + name + ": " + err.Error(), Want: fmt.Sprintf("%d records", len(exp)), Replay: json.RawMessage(line)})
					bad = true
					return
				}
				pp, _ := hh.proj()
				if d := sameProj(exp, pp); d != "" {
					res.Add(hx.Mismatch{Case: i, Step: cs.At, What: "loader returns other records than the file holds", Class: "loader",
						Got: k.name + ": " + name + ": " + d, Replay: json.RawMessage(line)})
					bad = true
				}
				if len(exp) > 0 && len(exp) < cs.NRec[want.Recs[0][0]] {
					res.Count("boundary_cut_files_loaded", 1)
				}
			}
			for name, p := range paths {
				cmp(name, p)
			}
			if len(paths) > 1 || cs.Kd > 0 {
				res.Nontrivial++
				if len(paths) > 1 && cs.Kd > 1 && k.name == "silences" {
					res.Sample(line)
				}
			}
			if bad {
				res.Count("bad_states", 1)
			} else {
				os.RemoveAll(dir)
			}
		}
		return nil
	})
	if err != nil {
		t.Fatal(err)
	}
}

// ---------------------------------------------------------------- (c) round trip

func roundTrip(t *testing.T, res *hx.Result, k *kind, label string, items []rec, viaAPI int, rng *rand.Rand) {
	res.Cases++
	dir := scratch(t, "rt")
	path := filepath.Join(dir, fmt.Sprintf("%s_%s", k.name, label))
	fail := func(what, got string) {
		res.Add(hx.Mismatch{Case: res.Cases, What: what, Got: k.name + " " + label + ": " + got})
	}
	// the store: loaded from a snapshot file as an older/current version wrote it, plus API writes
	h, err := k.open("", bytes.NewReader(encode(items)))
	if err != nil {
		fail("start-up error on a well-formed snapshot", err.Error())
		return
	}
	for i := 0; i < viaAPI; i++ {
		if err := h.mutate(i); err != nil {
			t.Fatalf("API write: %v", err)
		}
		time.Sleep(time.Second)
	}
	before, probs := h.proj()
	if len(probs) > 0 {
		fail("store inconsistent before the snapshot", probs[0])
	}
	// crafted content must be what the store holds (old formats upgraded, nothing lost)
	want := wantProj(items)
	if viaAPI == 0 {
		if d := sameProj(want, before); d != "" {
			fail("store loaded from a snapshot differs from the file's content", d)
		}
	} else if len(before) != len(items)+viaAPI {
		fail("store size", fmt.Sprintf("%d records, want %d", len(before), len(items)+viaAPI))
	}
	f, err := os.Create(path)
	if err != nil {
		t.Fatal(err)
	}
	n, err := h.snapshot(f)
	f.Close()
	if err != nil {
		fail("Snapshot error", err.Error())
		return
	}
	if fi, _ := os.Stat(path); fi.Size() != n {
		fail("Snapshot size", fmt.Sprintf("reports %d bytes, file has %d", n, fi.Size()))
	}
	h2, err := k.open(path, nil)
	if err != nil {
		fail("start-up error on a snapshot the code wrote", err.Error())
		return
	}
	after, probs := h2.proj()
	if len(probs) > 0 {
		fail("store inconsistent after restart", probs[0])
	}
	if d := sameProj(before, after); d != "" {
		fail("content differs after snapshot + restart", d)
	}
	res.Steps += len(after)
	// effect after restart: silences keep muting, entries are returned by Query
	idx := rng.Perm(len(items))
	if len(idx) > 150 {
		idx = idx[:150]
	}
	for _, i := range idx {
		if p := h2.probe(items[i]); p != "" {
			fail("record without effect after restart", p)
		}
		res.Count("probes", 1)
	}
	// a second generation: snapshot of the restarted store is again loadable and identical
	var buf bytes.Buffer
	if _, err := h2.snapshot(&buf); err != nil {
		fail("Snapshot error", err.Error())
		return
	}
	h3, err := k.open("", &buf)
	if err != nil {
		fail("start-up error on a second-generation snapshot", err.Error())
		return
	}
	third, _ := h3.proj()
	if d := sameProj(before, third); d != "" {
		fail("content differs after two snapshot + restart cycles", d)
	}
	if len(items) > 0 {
		res.Nontrivial++
	}
	os.Remove(path)
}

func TestRoundTrip(t *testing.T) {
	res := hx.NewResult()
	defer res.Write()
	rng := rand.New(rand.NewSource(*hx.Seed))
	sizes := []int{0, 1, 3, 1000, 5000}
	synctest.Test(t, func(t *testing.T) {
		for _, k := range kinds {
			// mixed stores of every size
			for _, n := range sizes {
				off := 0
				if n > 0 {
					off = rng.Intn(50)
				}
				roundTrip(t, res, k, fmt.Sprintf("mixed_%d", n), genItems(k, off, n), 0, rng)
			}
			// one store per shape and (silences) time state: sizes 1 and 3
			for j := 0; j < k.shapes*3; j++ {
				roundTrip(t, res, k, fmt.Sprintf("shape_%d", j), []rec{k.craft(j)}, 0, rng)
				roundTrip(t, res, k, fmt.Sprintf("shape3_%d", j), []rec{k.craft(j), k.craft(j + k.shapes*3), k.craft(j + k.shapes*6)}, 0, rng)
			}
			// stores written through the API on top of a loaded snapshot
			roundTrip(t, res, k, "api_0", nil, 5, rng)
			roundTrip(t, res, k, "api_20", genItems(k, 0, 20), 7, rng)
			if *tier == "thorough" {
				for r := 0; r < 6; r++ {
					n := []int{2, 10, 100, 2000, 5000, 12000}[r]
					roundTrip(t, res, k, fmt.Sprintf("mixed_%d_r%d", n, r), genItems(k, rng.Intn(500), n), r, rng)
				}
			}
		}
	})
	res.Sample(hx.J(map[string]any{"silence_shape_3": craftSilence(3).want, "silence_shape_5_old_format": craftSilence(5).want, "nflog_shape_4": craftEntry(4).want}))
}

// ---------------------------------------------------------------- (d) prefix cuts

func TestPrefixCuts(t *testing.T) {
	res := hx.NewResult()
	defer res.Write()
	curRes = res
	rng := rand.New(rand.NewSource(*hx.Seed))
	for _, k := range kinds {
		type plan struct {
			n     int
			every bool // every byte offset
			bnds  int  // number of sampled boundaries (0 = all)
		}
		plans := []plan{{3, true, 0}, {nSilShapes + 2, true, 0}, {60, false, 0}, {1000, false, 40}}
		if *tier == "thorough" {
			plans = []plan{{3, true, 0}, {nSilShapes * 3, true, 0}, {200, false, 0}, {1000, false, 300}, {5000, false, 100}}
		}
		for _, pl := range plans {
			gs := makeGen(t, k, rng.Intn(40), pl.n)
			_, pre, _ := bounds(gs.b)
			cuts := map[int]bool{}
			if pl.every {
				for x := 0; x <= len(gs.b); x++ {
					cuts[x] = true
				}
			} else {
				which := rng.Perm(pl.n)
				if pl.bnds > 0 && pl.bnds < pl.n {
					which = append(which[:pl.bnds], 0, pl.n-1)
				}
				for _, i := range which {
					b0, b1 := gs.bs[i], gs.bs[i+1]
					for _, x := range []int{b0, b0 + 1, b0 + pre[i], b0 + pre[i] + 1, (b0 + b1) / 2, b0 + pre[i] + rng.Intn(b1-b0-pre[i]), b1 - 1, b1} {
						cuts[x] = true
					}
				}
			}
			isB := map[int]int{}
			for i, b := range gs.bs {
				isB[b] = i
			}
			for x := range cuts {
				res.Cases++
				h, err := k.open("", bytes.NewReader(gs.b[:x]))
				r, onBoundary := isB[x]
				rep := func() json.RawMessage {
					return hx.J(map[string]any{"kind": k.name, "records": pl.n, "cut_at_byte": x, "whole_records_before_cut": r,
						"on_boundary": onBoundary, "snapshot_hex": hex.EncodeToString(gs.b[:min(x+1, 4096)])})
				}
				if !onBoundary {
					res.Nontrivial++
					if err == nil {
						pp, _ := h.proj()
						res.Add(hx.Mismatch{Case: x, What: "loader accepts a torn file", Class: "loader",
							Got:  fmt.Sprintf("%s: %d-record snapshot cut at byte %d (inside a record) loads without error as %d records", k.name, pl.n, x, len(pp)),
							Want: "error", Replay: rep()})
					}
					continue
				}
				if err != nil {
					res.Add(hx.Mismatch{Case: x, What: "loader refuses whole records", Class: "loader",
						Got: fmt.Sprintf("%s: %d whole records: %v", k.name, r, err), Replay: rep()})
					continue
				}
				got, probs := h.proj()
				if d := sameProj(wantProj(gs.items[:r]), got); d != "" {
					res.Add(hx.Mismatch{Case: x, What: "loader returns other records than the file holds", Class: "loader",
						Got: fmt.Sprintf("%s: prefix of %d whole records: %s", k.name, r, d), Replay: rep()})
				} else if len(probs) > 0 {
					res.Add(hx.Mismatch{Case: x, What: "store inconsistent", Got: probs[0], Replay: rep()})
				}
				res.Steps += r
			}
			res.Count(fmt.Sprintf("%s_cuts_n%d", k.name, pl.n), len(cuts))
		}
	}
	res.Sample(hx.J(map[string]any{"kind": "silences", "records": 3, "cuts": "every byte offset 0..len"}))
	corruptions(t, res, rng)
}

// corruptions: whole records that are not valid state (no payload, no silence / entry /
// receiver inside) spliced into a snapshot at every record boundary.  The loader must not
// panic; it must fail, or load only records the file really holds.
func corruptions(t *testing.T, res *hx.Result, rng *rand.Rand) {
	frame := func(m proto.Message) []byte {
		var b bytes.Buffer
		protodelim.MarshalTo(&b, m)
		return b.Bytes()
	}
	bad := map[string][][]byte{
		"silences": {{0}, frame(&spb.MeshSilence{ExpiresAt: ts(time.Hour)})},
		"nflog": {{0}, frame(&npb.MeshEntry{ExpiresAt: ts(time.Hour)}),
			frame(&npb.MeshEntry{Entry: &npb.Entry{GroupKey: []byte("g"), Timestamp: ts(0)}, ExpiresAt: ts(time.Hour)})},
	}
	for _, k := range kinds {
		gs := makeGen(t, k, rng.Intn(40), 4)
		for bi, junk := range bad[k.name] {
			for _, at := range gs.bs {
				res.Cases++
				res.Nontrivial++
				file := append(append(append([]byte{}, gs.b[:at]...), junk...), gs.b[at:]...)
				rep := hx.J(map[string]any{"kind": k.name, "corruption": bi, "at_byte": at, "snapshot_hex": hex.EncodeToString(file)})
				func() {
					defer func() {
						if p := recover(); p != nil {
							res.Add(hx.Mismatch{Case: at, What: "loader panics on a corrupt snapshot", Class: "loader",
								Got: fmt.Sprintf("%s: record without payload at byte %d: panic: %v", k.name, at, p), Replay: rep})
						}
					}()
					h, err := k.open("", bytes.NewReader(file))
					if err != nil {
						res.Count("corruptions_rejected", 1)
						return
					}
					got, _ := h.proj()
					for key, p := range got {
						if gs.proj[key] != p {
							res.Add(hx.Mismatch{Case: at, What: "loader makes up a record from a corrupt snapshot", Class: "loader",
								Got: fmt.Sprintf("%s: %s = %s", k.name, key, short(p, 300)), Replay: rep})
						}
					}
				}()
			}
		}
	}
}

// TestReplayBytes presents the bytes of a replay artefact of TestPrefixCuts to the real loader.
func TestReplayBytes(t *testing.T) {
	res := hx.NewResult()
	defer res.Write()
	b, err := os.ReadFile(*hx.In)
	if err != nil {
		t.Fatal(err)
	}
	var a struct {
		Kind       string `json:"kind"`
		Hex        string `json:"snapshot_hex"`
		Cut        *int   `json:"cut_at_byte"`
		OnBoundary bool   `json:"on_boundary"`
		Whole      int    `json:"whole_records_before_cut"`
	}
	if err := json.Unmarshal(b, &a); err != nil {
		t.Fatal(err)
	}
	data, _ := hex.DecodeString(a.Hex)
	if a.Cut != nil {
		if *a.Cut > len(data) {
			t.Skip("artefact does not hold the whole prefix")
		}
		data = data[:*a.Cut]
	}
	res.Cases++
	func() {
		defer func() {
			if p := recover(); p != nil {
				res.Add(hx.Mismatch{What: "loader panics on a corrupt snapshot", Got: fmt.Sprint(p)})
			}
		}()
		h, err := kindOf(a.Kind).open("", bytes.NewReader(data))
		switch {
		case a.Cut != nil && !a.OnBoundary && err == nil:
			pp, _ := h.proj()
			res.Add(hx.Mismatch{What: "loader accepts a torn file", Got: fmt.Sprintf("%s: %d bytes cut inside a record load without error as %d records", a.Kind, len(data), len(pp)), Want: "error"})
		case a.Cut != nil && a.OnBoundary && err != nil:
			res.Add(hx.Mismatch{What: "loader refuses whole records", Got: err.Error()})
		case a.Cut != nil && a.OnBoundary:
			if pp, _ := h.proj(); len(pp) != a.Whole {
				res.Add(hx.Mismatch{What: "loader returns other records than the file holds", Got: fmt.Sprintf("%d records, file holds %d", len(pp), a.Whole)})
			}
		}
	}()
}
