//go:build verif

package cli

import (
	"github.com/prometheus/alertmanager/api/v2/models"
	"github.com/prometheus/alertmanager/dispatch"
)

// VerifResolveAlertReceivers exports resolveAlertReceivers, the function with which
// `amtool config routes test` computes the receivers of a label set (C07).  The file is
// added to package cli at build time with `go test -overlay`; nothing is written to /repo.
func VerifResolveAlertReceivers(mainRoute *dispatch.Route, ls *models.LabelSet) ([]string, error) {
	return resolveAlertReceivers(mainRoute, ls)
}
