//go:build verif

package cluster

import (
	"github.com/prometheus/client_golang/prometheus"
	dto "github.com/prometheus/client_model/go"
)

// Export-only access for the real-peer harness (/verif/harness/peer; properties C19 and C08),
// added to package cluster at build time with go -overlay; not part of the repository.
// Nothing of cluster.go is restated here: the harness uses Create, AddState, Join, Leave,
// Settle, WaitReady, Ready as they are.  What is added is only what a process has and the
// Peer API lacks: stopping without a leave message (a crash), closing the sockets of a peer
// that left (the process exits), and reading three of the peer's own counters.

// VerifShutdown stops the peer like the end of the process does: the goroutines that
// watch stopc end and memberlist closes its listeners.  Without a preceding Leave the
// other peers have to find out by probing (= crash).
func (p *Peer) VerifShutdown() error {
	select {
	case <-p.stopc:
	default:
		close(p.stopc)
	}
	return p.mlist.Shutdown()
}

// VerifLeaveCount is alertmanager_cluster_peers_left_total (one per NotifyLeave).
func (p *Peer) VerifLeaveCount() float64 { return counterValue(p.peerLeaveCounter) }

// VerifJoinCount is alertmanager_cluster_peers_joined_total (one per NotifyJoin).
func (p *Peer) VerifJoinCount() float64 { return counterValue(p.peerJoinCounter) }

// VerifFailedPeers returns the names of Peer.failedPeers (whom the reconnect loop dials).
func (p *Peer) VerifFailedPeers() []string {
	p.peerLock.RLock()
	defer p.peerLock.RUnlock()
	out := make([]string, 0, len(p.failedPeers))
	for _, pr := range p.failedPeers {
		out = append(out, pr.Name)
	}
	return out
}

// VerifOversize reports the oversize path of the channel: messages waiting in msgc, reliable
// sends started, failed, and completed successfully (count of the duration histogram).  The
// worker is idle iff queued == 0 and sent == failed + done.
func (c *Channel) VerifOversize() (queued int, sent, failed float64, done uint64) {
	var m dto.Metric
	if h, ok := c.oversizeGossipDuration.(prometheus.Metric); ok {
		if err := h.Write(&m); err == nil {
			done = m.GetHistogram().GetSampleCount()
		}
	}
	return len(c.msgc), counterValue(c.oversizeGossipMessageSentTotal), counterValue(c.oversizeGossipMessageFailureTotal), done
}
