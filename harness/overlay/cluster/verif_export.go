//go:build verif

package cluster

// Export-only access for the /verif harness of property C19 (added to package cluster at
// build time with go -overlay; not part of the repository).  It builds the real delegate
// and the real Channels of one cluster node WITHOUT a memberlist: the harness is the
// network.  What is restated from cluster.go (and therefore trusted, not tested):
//   - Create:   retransmit := max(len(knownPeers)/2, 3); newDelegate(l, reg, p, retransmit)
//   - AddState: p.states[key] = s; send = bcast.QueueBroadcast(simpleBroadcast(b));
//               NewChannel(key, send, peers, sendOversize, logger, stopc, reg)
//     with the two closures that call memberlist (Members, SendReliable) supplied by the
//     harness.
// Everything else is the repository's code: newDelegate, delegate.NotifyMsg / GetBroadcasts /
// LocalState / MergeRemoteState, memberlist.TransmitLimitedQueue, NewChannel,
// Channel.Broadcast, Channel.handleOverSizedMessages, OversizedMessage.

import (
	"log/slog"

	"github.com/hashicorp/memberlist"
	"github.com/prometheus/client_golang/prometheus"
	dto "github.com/prometheus/client_model/go"
)

// VerifNode is one cluster node: a Peer without memberlist plus its delegate.
type VerifNode struct {
	p     *Peer
	d     *delegate
	reg   *prometheus.Registry
	chans map[string]*Channel
}

// NewVerifNode builds the delegate the way Create does.  numNodes stands for
// Peer.ClusterSize (memberlist.NumMembers), which the broadcast queue uses for its
// retransmit limit.
func NewVerifNode(l *slog.Logger, numNodes func() int) *VerifNode {
	reg := prometheus.NewRegistry() // never gathered: the gauge funcs of newDelegate read p.mlist
	p := &Peer{
		states: map[string]State{},
		stopc:  make(chan struct{}),
		readyc: make(chan struct{}),
		logger: l,
		peers:  map[string]peer{},
	}
	retransmit := 3 // Create: max(len(knownPeers)/2, 3), i.e. 3 with up to 7 configured peers
	d := newDelegate(l, reg, p, retransmit)
	d.bcast.NumNodes = numNodes
	p.delegate = d
	return &VerifNode{p: p, d: d, reg: reg, chans: map[string]*Channel{}}
}

// AddState registers s under key like Peer.AddState and returns the real Channel.
func (v *VerifNode) AddState(key string, s State, peers func() []*memberlist.Node,
	sendOversize func(*memberlist.Node, []byte) error,
) *Channel {
	v.p.mtx.Lock()
	v.p.states[key] = s
	v.p.mtx.Unlock()

	send := func(b []byte) {
		v.p.delegate.bcast.QueueBroadcast(simpleBroadcast(b))
	}
	c := NewChannel(key, send, peers, sendOversize, v.p.logger, v.p.stopc, v.reg)
	v.chans[key] = c
	return c
}

func (v *VerifNode) NotifyMsg(b []byte)                        { v.d.NotifyMsg(b) }
func (v *VerifNode) GetBroadcasts(overhead, limit int) [][]byte { return v.d.GetBroadcasts(overhead, limit) }
func (v *VerifNode) LocalState(join bool) []byte               { return v.d.LocalState(join) }
func (v *VerifNode) MergeRemoteState(b []byte, join bool)      { v.d.MergeRemoteState(b, join) }
func (v *VerifNode) NodeMeta(limit int) []byte                 { return v.d.NodeMeta(limit) }

// NumQueued is the length of the gossip queue (memberlist.TransmitLimitedQueue).
func (v *VerifNode) NumQueued() int { return v.d.bcast.NumQueued() }

// OversizeQueued is the number of oversized messages waiting in the channel of key.
func (v *VerifNode) OversizeQueued(key string) int { return len(v.chans[key].msgc) }

// OversizeCap is the capacity of the queue of oversized messages.
func (v *VerifNode) OversizeCap(key string) int { return cap(v.chans[key].msgc) }

func counterValue(c prometheus.Counter) float64 {
	var m dto.Metric
	if err := c.Write(&m); err != nil {
		return -1
	}
	return m.GetCounter().GetValue()
}

// OversizeCounters returns alertmanager_oversized_gossip_message_{dropped,sent,failure}_total of key.
func (v *VerifNode) OversizeCounters(key string) (dropped, sent, failed float64) {
	c := v.chans[key]
	return counterValue(c.oversizeGossipMessageDroppedTotal), counterValue(c.oversizeGossipMessageSentTotal),
		counterValue(c.oversizeGossipMessageFailureTotal)
}

// Stop ends the goroutines of the node (Peer.Leave closes stopc).
func (v *VerifNode) Stop() { close(v.p.stopc) }
