//go:build verif

package dispatch

// Export-only access for the /verif harness harness/dsched (added at build time with
// go -overlay; not part of the repository).  Nothing here changes the dispatcher: the
// functions read the group map and the fields of an aggregation group that the replay
// of Dispatch.tla schedules compares with the model (map entry, content of the group's
// store, destroyed / cancelled / running, run loop ended).

import (
	"github.com/prometheus/alertmanager/alert"
	"github.com/prometheus/alertmanager/notify"
)

// VerifGroup is a handle on one aggregation group object; handles compare equal iff they
// denote the same object.
type VerifGroup struct{ ag *aggrGroup }

// VerifGroupState is what the harness can see of one aggregation group.
type VerifGroupState struct {
	ID        string // the uuid in the group's context (also reported by the flush hooks)
	Key       string
	Alerts    []*alert.Alert
	Destroyed bool
	Cancelled bool // the group's context has been cancelled
	Running   bool // runAG has been called for it
	Done      bool // its run loop has ended
}

func (g VerifGroup) Nil() bool { return g.ag == nil }

func (g VerifGroup) Same(o VerifGroup) bool { return g.ag == o.ag }

func (g VerifGroup) State() VerifGroupState {
	id, _ := notify.AggrGroupID(g.ag.ctx)
	st := VerifGroupState{
		ID:        id,
		Key:       g.ag.GroupKey(),
		Alerts:    g.ag.alerts.List(),
		Destroyed: g.ag.destroyed(),
		Cancelled: g.ag.ctx.Err() != nil,
		Running:   g.ag.running.Load(),
	}
	select {
	case <-g.ag.done:
		st.Done = true
	default:
	}
	return st
}

// VerifMapped returns the aggregation groups that are in the dispatcher's group maps now.
func (d *Dispatcher) VerifMapped() []VerifGroup {
	var out []VerifGroup
	for i := range d.routeGroupsSlice {
		d.routeGroupsSlice[i].groups.Range(func(_, el any) bool {
			out = append(out, VerifGroup{ag: el.(*aggrGroup)})
			return true
		})
	}
	return out
}

// VerifConcurrency is the number of ingestion workers of this dispatcher.
func (d *Dispatcher) VerifConcurrency() int { return d.concurrency }
