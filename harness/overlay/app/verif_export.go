//go:build verif

package app

// Export-only access for the /verif harness (added at build time with go -overlay;
// not part of the repository): constructs the unexported reloader with the singletons
// the harness built in the order of app.setup, so that the real reload() is the code
// under test.

import (
	"context"
	"log/slog"
	"net/url"
	"time"

	"github.com/prometheus/client_golang/prometheus"
	"github.com/prometheus/common/model"

	"github.com/prometheus/alertmanager/alert"
	"github.com/prometheus/alertmanager/api"
	"github.com/prometheus/alertmanager/config"
	"github.com/prometheus/alertmanager/dispatch"
	"github.com/prometheus/alertmanager/eventrecorder"
	"github.com/prometheus/alertmanager/featurecontrol"
	"github.com/prometheus/alertmanager/inhibit"
	"github.com/prometheus/alertmanager/marker"
	"github.com/prometheus/alertmanager/notify"
	"github.com/prometheus/alertmanager/provider"
	"github.com/prometheus/alertmanager/silence"
	"github.com/prometheus/alertmanager/tracing"
)

type VerifDeps struct {
	Alerts              provider.Alerts
	API                 *api.API
	GroupMarker         marker.GroupMarker
	Logger              *slog.Logger
	NotificationLog     notify.NotificationLog
	Silencer            *silence.Silencer
	Registry            prometheus.Registerer
	Flags               featurecontrol.Flagger
	Wait                func() time.Duration
	Timeout             func(time.Duration) time.Duration
	StartTime           time.Time
	StartDelay          time.Duration
	MaintenanceInterval time.Duration
	Retention           time.Duration
}

type VerifReloader struct{ r *reloader }

func NewVerifReloader(d VerifDeps) *VerifReloader {
	u, _ := url.Parse("http://am.example:9093")
	rec := eventrecorder.NopRecorder()
	return &VerifReloader{r: &reloader{
		alerts:                      d.Alerts,
		apih:                        d.API,
		dispatcherMetrics:           dispatch.NewDispatcherMetrics(false, d.Registry, d.Flags),
		dispatchMaintenanceInterval: d.MaintenanceInterval,
		dispatchStartDelay:          d.StartDelay,
		eventRecorder:               rec,
		externalURL:                 u,
		groupMarker:                 d.GroupMarker,
		logger:                      d.Logger,
		metrics:                     newMetrics(d.Registry),
		notificationLog:             d.NotificationLog,
		pipelineBuilder:             notify.NewPipelineBuilder(d.Registry, d.Flags, rec),
		retention:                   d.Retention,
		silencer:                    d.Silencer,
		startTime:                   d.StartTime,
		timeoutFunc:                 d.Timeout,
		tracingMgr:                  tracing.NewManager(d.Logger),
		waitFunc:                    d.Wait,
	}}
}

func (v *VerifReloader) Reload(c *config.Config) error { return v.r.reload(c) }
func (v *VerifReloader) Stop()                         { _ = v.r.stop() }
func (v *VerifReloader) Dispatcher() *dispatch.Dispatcher { return v.r.dispatcher.Load() }
func (v *VerifReloader) Inhibitor() *inhibit.Inhibitor   { return v.r.inhibitor.Load() }
func (v *VerifReloader) Groups(ctx context.Context, rf func(*dispatch.Route) bool, af func(*alert.Alert, time.Time) bool) (dispatch.AlertGroups, map[model.Fingerprint][]string, error) {
	return v.r.groups(ctx, rf, af)
}
