//go:build verif

package app

// Export-only helper for the whole-program stage (harness/appsys; added at build time with
// go -overlay, not part of the repository): builds the web.FlagConfig that Options.WebConfig
// needs, so that the harness module does not have to require exporter-toolkit directly.
// Nothing of the program under test is restated here: the App is created by New(Options).

import "github.com/prometheus/exporter-toolkit/web"

// VerifWebConfig is the flag set `--web.listen-address=<listen>` with no web config file.
func VerifWebConfig(listen string) *web.FlagConfig {
	addrs := []string{listen}
	systemd := false
	file := ""
	return &web.FlagConfig{WebListenAddresses: &addrs, WebSystemdSocket: &systemd, WebConfigFile: &file}
}
