package sil

import (
	"context"
	"fmt"
	"sync"
	"testing"
	"time"

	"github.com/prometheus/client_golang/prometheus"
	"github.com/prometheus/common/model"
	"github.com/prometheus/common/promslog"
	"google.golang.org/protobuf/types/known/timestamppb"

	"github.com/prometheus/alertmanager/eventrecorder"
	"github.com/prometheus/alertmanager/marker"
	"github.com/prometheus/alertmanager/silence"
	pb "github.com/prometheus/alertmanager/silence/silencepb"

	"verif/harness/hx"
)

// TestConcurrent: C02 "under concurrent queries and updates".  Real goroutines, real clock:
// one goroutine keeps asking the Silencer about an alert while others create, edit and
// expire matching silences.  At quiescence the verdict of the long-lived Silencer (with its
// per-alert cache) must equal the verdict of a fresh Silencer, which evaluates every stored
// silence directly.
func TestConcurrent(t *testing.T) {
	res := hx.NewResult()
	defer res.Write()
	ls := model.LabelSet{"a": "x", "g": "1"}
	other := model.LabelSet{"a": "y"}
	verdict := func(z *silence.Silencer, l model.LabelSet) []string {
		m := marker.NewAlertMarker()
		z.Mutes(marker.WithContext(context.Background(), m), l)
		return sortedIDs(m.Status(l.Fingerprint()).SilencedBy)
	}
	for round := 0; round < *hx.N; round++ {
		res.Cases++
		s, err := silence.New(silence.Options{Retention: time.Hour, Metrics: prometheus.NewRegistry(), EventRecorder: eventrecorder.NopRecorder()})
		if err != nil {
			t.Fatal(err)
		}
		z := silence.NewSilencer(s, promslog.NewNopLogger(), eventrecorder.NopRecorder())
		mk := func(val string, d time.Duration) *pb.Silence {
			return &pb.Silence{
				MatcherSets: []*pb.MatcherSet{{Matchers: []*pb.Matcher{{Type: pb.Matcher_EQUAL, Name: "a", Pattern: val}}}},
				EndsAt:      timestamppb.New(time.Now().Add(d)), Comment: "c", CreatedBy: "u",
			}
		}
		first := mk("x", time.Hour)
		if err := s.Set(context.Background(), first); err != nil {
			t.Fatal(err)
		}
		verdict(z, ls) // the cache now lists the first silence
		var wg sync.WaitGroup
		stop := make(chan struct{})
		wg.Add(1)
		go func() { // poller
			defer wg.Done()
			for {
				select {
				case <-stop:
					return
				default:
					verdict(z, ls)
					verdict(z, other)
				}
			}
		}()
		var created []string
		var mu sync.Mutex
		var cw sync.WaitGroup
		for w := 0; w < 2; w++ {
			cw.Add(1)
			go func(w int) { // creators / editors
				defer cw.Done()
				for i := 0; i < 25; i++ {
					sil := mk([]string{"x", "y"}[(i+w)%2], time.Hour)
					if err := s.Set(context.Background(), sil); err == nil {
						mu.Lock()
						created = append(created, sil.Id)
						mu.Unlock()
					}
					if i%7 == 3 {
						mu.Lock()
						id := created[len(created)/2]
						mu.Unlock()
						s.Expire(context.Background(), id)
					}
				}
			}(w)
		}
		cw.Wait()
		close(stop)
		wg.Wait()
		// an expire racing in-place edits of the same silence: once Expire has returned without
		// error the silence is expired under its id for good (an edit that comes later creates a
		// new id; one that came earlier is expired with it)
		victim := mk("x", time.Hour)
		if err := s.Set(context.Background(), victim); err != nil {
			t.Fatal(err)
		}
		vid := victim.Id
		var rw sync.WaitGroup
		var expErr error
		start := make(chan struct{})
		rw.Add(1)
		go func() {
			defer rw.Done()
			<-start
			expErr = s.Expire(context.Background(), vid)
		}()
		for w := 0; w < 4; w++ {
			rw.Add(1)
			go func(w int) {
				defer rw.Done()
				<-start
				for i := 0; i < 3; i++ {
					e := mk("x", time.Hour+time.Duration(w*10+i)*time.Minute)
					e.Id, e.Comment = vid, fmt.Sprintf("edit %d/%d", w, i)
					s.Set(context.Background(), e)
				}
			}(w)
		}
		close(start)
		rw.Wait()
		if expErr == nil {
			res.Steps++
			res.Count("expire_raced_edits", 1)
			sils, _, qerr := s.Query(context.Background(), silence.QIDs(vid))
			if qerr == nil && len(sils) == 1 && !sils[0].EndsAt.AsTime().After(time.Now()) {
				// expired: as demanded
			} else if qerr == nil && len(sils) == 1 {
				res.Add(hx.Mismatch{Case: round, What: "Expire returned without error while in-place edits of the same silence were running, yet the silence is still active under its id",
					Class: "verdict", Want: "expired", Got: fmt.Sprintf("ends %s (now %s), comment %q", sils[0].EndsAt.AsTime().Format(time.RFC3339Nano), time.Now().Format(time.RFC3339Nano), sils[0].Comment),
					Replay: hx.J(fmt.Sprintf("round %d expire vs edits", round))})
			}
		}
		// the first silence ends: what remains must still mute
		s.Expire(context.Background(), first.Id)
		time.Sleep(2 * time.Millisecond)
		fresh := silence.NewSilencer(s, promslog.NewNopLogger(), eventrecorder.NopRecorder())
		for _, l := range []model.LabelSet{ls, other} {
			res.Steps++
			got, want := verdict(z, l), verdict(fresh, l)
			if len(want) > 0 {
				res.Nontrivial++
			}
			if !sameSet(got, want) {
				res.Add(hx.Mismatch{Case: round, What: "after concurrent queries and updates the cached mute verdict differs from a direct evaluation of the stored silences",
					Class: "verdict", Want: want, Got: got, Replay: hx.J(fmt.Sprintf("round %d label set %v", round, l))})
			}
		}
	}
}
