package sil

import (
	"context"
	"fmt"
	"sync"
	"testing"
	"time"

	"github.com/prometheus/client_golang/prometheus"
	"github.com/prometheus/common/model"
	"github.com/prometheus/common/promslog"
	"google.golang.org/protobuf/types/known/timestamppb"

	"github.com/prometheus/alertmanager/eventrecorder"
	"github.com/prometheus/alertmanager/marker"
	"github.com/prometheus/alertmanager/silence"
	pb "github.com/prometheus/alertmanager/silence/silencepb"

	"verif/harness/hx"
)

// TestConcurrent: C02 "under concurrent queries and updates".  Real goroutines, real clock:
// one goroutine keeps asking the Silencer about an alert while others create, edit and
// expire matching silences.  At quiescence the verdict of the long-lived Silencer (with its
// per-alert cache) must equal the verdict of a fresh Silencer, which evaluates every stored
// silence directly.
func TestConcurrent(t *testing.T) {
	res := hx.NewResult()
	defer res.Write()
	ls := model.LabelSet{"a": "x", "g": "1"}
	other := model.LabelSet{"a": "y"}
	verdict := func(z *silence.Silencer, l model.LabelSet) []string {
		m := marker.NewAlertMarker()
		z.Mutes(marker.WithContext(context.Background(), m), l)
		return sortedIDs(m.Status(l.Fingerprint()).SilencedBy)
	}
	for round := 0; round < *hx.N; round++ {
		res.Cases++
		s, err := silence.New(silence.Options{Retention: time.Hour, Metrics: prometheus.NewRegistry(), EventRecorder: eventrecorder.NopRecorder()})
		if err != nil {
			t.Fatal(err)
		}
		z := silence.NewSilencer(s, promslog.NewNopLogger(), eventrecorder.NopRecorder())
		mk := func(val string, d time.Duration) *pb.Silence {
			return &pb.Silence{
				MatcherSets: []*pb.MatcherSet{{Matchers: []*pb.Matcher{{Type: pb.Matcher_EQUAL, Name: "a", Pattern: val}}}},
				EndsAt:      timestamppb.New(time.Now().Add(d)), Comment: "c", CreatedBy: "u",
			}
		}
		first := mk("x", time.Hour)
		if err := s.Set(context.Background(), first); err != nil {
			t.Fatal(err)
		}
		verdict(z, ls) // the cache now lists the first silence
		var wg sync.WaitGroup
		stop := make(chan struct{})
		wg.Add(1)
		go func() { // poller
			defer wg.Done()
			for {
				select {
				case <-stop:
					return
				default:
					verdict(z, ls)
					verdict(z, other)
				}
			}
		}()
		var created []string
		var mu sync.Mutex
		var cw sync.WaitGroup
		for w := 0; w < 2; w++ {
			cw.Add(1)
			go func(w int) { // creators / editors
				defer cw.Done()
				for i := 0; i < 25; i++ {
					sil := mk([]string{"x", "y"}[(i+w)%2], time.Hour)
					if err := s.Set(context.Background(), sil); err == nil {
						mu.Lock()
						created = append(created, sil.Id)
						mu.Unlock()
					}
					if i%7 == 3 {
						mu.Lock()
						id := created[len(created)/2]
						mu.Unlock()
						s.Expire(context.Background(), id)
					}
				}
			}(w)
		}
		cw.Wait()
		close(stop)
		wg.Wait()
		// the first silence ends: what remains must still mute
		s.Expire(context.Background(), first.Id)
		time.Sleep(2 * time.Millisecond)
		fresh := silence.NewSilencer(s, promslog.NewNopLogger(), eventrecorder.NopRecorder())
		for _, l := range []model.LabelSet{ls, other} {
			res.Steps++
			got, want := verdict(z, l), verdict(fresh, l)
			if len(want) > 0 {
				res.Nontrivial++
			}
			if !sameSet(got, want) {
				res.Add(hx.Mismatch{Case: round, What: "after concurrent queries and updates the cached mute verdict differs from a direct evaluation of the stored silences",
					Class: "verdict", Want: want, Got: got, Replay: hx.J(fmt.Sprintf("round %d label set %v", round, l))})
			}
		}
	}
}
