package sil

import (
	"bytes"
	"context"
	"encoding/json"
	"fmt"
	"sort"
	"strings"
	"testing"
	"testing/synctest"
	"time"

	"github.com/prometheus/client_golang/prometheus"
	"google.golang.org/protobuf/encoding/protodelim"

	"github.com/prometheus/alertmanager/eventrecorder"
	"github.com/prometheus/alertmanager/silence"
	pb "github.com/prometheus/alertmanager/silence/silencepb"

	"verif/harness/hx"
)

// ---- C09: behaviours of spec/SilCluster.tla replayed on N real silence.Silences ----

type cver struct {
	ID    string `json:"id"`
	Start int64  `json:"start"`
	End   int64  `json:"end"`
	Upd   int64  `json:"upd"`
	Exp   int64  `json:"exp"`
}

type cop struct {
	Op      string `json:"op"`
	N       string `json:"n,omitempty"`
	ID      string `json:"id,omitempty"`
	V       *cver  `json:"v,omitempty"`
	B       []cver `json:"-"`
	Keep    bool   `json:"keep,omitempty"`
	Changed int    `json:"changed,omitempty"`
	A       string `json:"a,omitempty"`
	Bn      string `json:"-"`
	Ca      int    `json:"ca,omitempty"`
	Cb      int    `json:"cb,omitempty"`
	K       int    `json:"k,omitempty"`
	D       int64  `json:"d,omitempty"`
}

type cgap struct {
	N      string `json:"n"`
	ID     string `json:"id"`
	Active bool   `json:"active"`
}

type nodeState map[string]cver

func (m *nodeState) UnmarshalJSON(b []byte) error {
	*m = nodeState{}
	if bytes.Equal(bytes.TrimSpace(b), []byte("[]")) {
		return nil
	}
	var x map[string]cver
	if err := json.Unmarshal(b, &x); err != nil {
		return err
	}
	*m = x
	return nil
}

type cstep struct {
	E    json.RawMessage      `json:"e"`
	T    int64                `json:"t"`
	St   map[string]nodeState `json:"st"`
	Gaps []cgap               `json:"gaps"`
}

type cnode struct {
	name string
	s    *silence.Silences
}

type cluster struct {
	unit    time.Duration
	ret     time.Duration
	nodes   map[string]*cnode
	names   []string
	toReal  map[string]string
	toModel map[string]string
	// messages in flight: key = to + "|" + canonical(batch)
	inflight map[string][]byte
	unsent   []string // broadcasts the model did not predict are detected by count
	nbcast   map[string]int
}

func (c *cluster) units(t time.Time) int64 { return int64(t.Sub(hx.Epoch) / c.unit) }

func (c *cluster) decode(b []byte) ([]cver, error) {
	var out []cver
	rd := bytes.NewReader(b)
	for rd.Len() > 0 {
		var me pb.MeshSilence
		if err := protodelim.UnmarshalFrom(rd, &me); err != nil {
			return nil, err
		}
		id := me.Silence.Id
		if m, ok := c.toModel[id]; ok {
			id = m
		}
		out = append(out, cver{ID: id, Start: c.units(me.Silence.StartsAt.AsTime()), End: c.units(me.Silence.EndsAt.AsTime()),
			Upd: c.units(me.Silence.UpdatedAt.AsTime()), Exp: c.units(me.ExpiresAt.AsTime())})
	}
	sort.Slice(out, func(i, j int) bool { return out[i].ID < out[j].ID })
	return out, nil
}

func canon(b []cver) string {
	x := append([]cver{}, b...)
	sort.Slice(x, func(i, j int) bool { return x[i].ID < x[j].ID })
	return fmt.Sprint(x)
}

func newCluster(names []string, unit time.Duration, retentionUnits int64) *cluster {
	c := &cluster{unit: unit, ret: time.Duration(retentionUnits) * unit, nodes: map[string]*cnode{}, names: names,
		toReal: map[string]string{}, toModel: map[string]string{}, inflight: map[string][]byte{}, nbcast: map[string]int{}}
	for _, n := range names {
		s, err := silence.New(silence.Options{Retention: c.ret, Metrics: prometheus.NewRegistry(), EventRecorder: eventrecorder.NopRecorder()})
		if err != nil {
			panic(err)
		}
		nd := &cnode{name: n, s: s}
		c.nodes[n] = nd
		name := n
		s.SetBroadcast(func(b []byte) {
			c.nbcast[name]++
			vs, err := c.decode(b)
			if err != nil {
				panic(err)
			}
			for _, o := range names {
				if o != name {
					c.inflight[o+"|"+canon(vs)] = b
				}
			}
		})
	}
	return c
}

func (c *cluster) project(n string) (nodeState, error) {
	b, err := c.nodes[n].s.MarshalBinary()
	if err != nil {
		return nil, err
	}
	vs, err := c.decode(b)
	if err != nil {
		return nil, err
	}
	out := nodeState{}
	for _, v := range vs {
		out[v.ID] = v
	}
	return out, nil
}

func matchersC09() []*pb.MatcherSet {
	return []*pb.MatcherSet{{Matchers: []*pb.Matcher{{Type: pb.Matcher_EQUAL, Name: "a", Pattern: "x"}}}}
}

func TestCluster(t *testing.T) {
	res := hx.NewResult()
	defer res.Write()
	unit := time.Minute
	err := hx.Lines(*hx.In, func(i int, line []byte) error {
		var h []cstep
		if err := json.Unmarshal(line, &h); err != nil {
			return fmt.Errorf("line %d: %v", i, err)
		}
		res.Cases++
		res.Sample(line)
		nontrivial := false
		synctest.Test(t, func(t *testing.T) {
			names := []string{}
			for n := range h[0].St {
				names = append(names, n)
			}
			sort.Strings(names)
			c := newCluster(names, unit, *retention)
			ctx := context.Background()
			for j, st := range h {
				res.Steps++
				var o cop
				if err := json.Unmarshal(st.E, &o); err != nil {
					t.Fatalf("op: %v", err)
				}
				var raw map[string]json.RawMessage
				json.Unmarshal(st.E, &raw)
				if o.Op == "deliver" || o.Op == "lose" {
					if err := json.Unmarshal(raw["b"], &o.B); err != nil {
						t.Fatalf("op batch: %v", err)
					}
				}
				bad := func(what, class string, want, got any) {
					res.Add(hx.Mismatch{Case: i, Step: j, What: what, Class: class, Want: want, Got: got, Replay: json.RawMessage(line)})
				}
				switch o.Op {
				case "create":
					sil := &pb.Silence{MatcherSets: matchersC09(), EndsAt: tsOf(o.V.End, unit), Comment: "c", CreatedBy: "u"}
					if err := c.nodes[o.N].s.Set(ctx, sil); err != nil {
						bad("create failed", "reply", nil, err.Error())
						return
					}
					c.toReal[o.ID] = sil.Id
					c.toModel[sil.Id] = o.ID
					// the broadcast was recorded before the id mapping existed: re-key it
					for k, b := range c.inflight {
						if strings.Contains(k, sil.Id) {
							delete(c.inflight, k)
							vs, _ := c.decode(b)
							c.inflight[k[:strings.Index(k, "|")]+"|"+canon(vs)] = b
						}
					}
				case "extend":
					sil := &pb.Silence{Id: c.toReal[o.ID], MatcherSets: matchersC09(), StartsAt: tsOf(o.V.Start, unit), EndsAt: tsOf(o.V.End, unit), Comment: "c", CreatedBy: "u"}
					if err := c.nodes[o.N].s.Set(ctx, sil); err != nil {
						bad("extend failed", "reply", nil, err.Error())
						return
					}
					if sil.Id != c.toReal[o.ID] {
						bad("extend created a new id", "reply", o.ID, sil.Id)
						return
					}
				case "expire":
					if err := c.nodes[o.N].s.Expire(ctx, c.toReal[o.ID]); err != nil {
						bad("expire failed", "reply", nil, err.Error())
						return
					}
				case "deliver":
					key := o.N + "|" + canon(o.B)
					b, ok := c.inflight[key]
					if !ok {
						bad("the update the model has in flight was never broadcast by the real code", "gossip", key, nil)
						return
					}
					if !o.Keep {
						// the model's net is a set: the message may be re-added by a later broadcast
						delete(c.inflight, key)
					}
					before := 0
					for _, n := range c.names {
						before += c.nbcast[n]
					}
					if err := c.nodes[o.N].s.Merge(b); err != nil {
						bad("Merge error", "reply", nil, err.Error())
						return
					}
					after := 0
					for _, n := range c.names {
						after += c.nbcast[n]
					}
					if after-before != o.Changed {
						bad("re-gossip count of Merge", "gossip", o.Changed, after-before)
					}
					if o.Changed < len(o.B) {
						nontrivial = true
					}
				case "lose":
					// the message stays deliverable in the real map only if the model re-adds it
					delete(c.inflight, o.N+"|"+canon(o.B))
				case "pushpull":
					var bn string
					json.Unmarshal(raw["b"], &bn)
					ba, _ := c.nodes[o.A].s.MarshalBinary()
					bb, _ := c.nodes[bn].s.MarshalBinary()
					var big bool
					json.Unmarshal(raw["big"], &big)
					if big {
						ba, bb = padOversized(ba), padOversized(bb)
					}
					if err := c.nodes[o.A].s.Merge(bb); err != nil {
						bad("Merge error", "reply", nil, err.Error())
					}
					if err := c.nodes[bn].s.Merge(ba); err != nil {
						bad("Merge error", "reply", nil, err.Error())
					}
				case "gc":
					n, err := c.nodes[o.N].s.GC()
					if err != nil {
						bad("GC error", "reply", nil, err.Error())
					}
					if n != o.K {
						bad("GC count", "reply", o.K, n)
					}
				case "tick":
					time.Sleep(time.Duration(o.D) * unit)
				default:
					t.Fatalf("unknown op %s", o.Op)
				}
				if now := int64(hx.SinceEpoch() / unit); now != st.T {
					bad("harness clock", "harness", st.T, now)
					return
				}
				for _, n := range c.names {
					got, err := c.project(n)
					if err != nil {
						bad("projection", "state", nil, err.Error())
						return
					}
					want := st.St[n]
					same := len(got) == len(want)
					for k, v := range want {
						if got[k] != v {
							same = false
						}
					}
					if !same {
						bad("store of instance "+n+" after "+o.Op, "state", want, got)
						return
					}
				}
				for _, g := range st.Gaps {
					res.Count("F7", 1)
					if g.Active {
						res.Count("F7_active", 1)
						if res.Counters["F7_active"] == 1 {
							res.Add(hx.Mismatch{Case: i, Step: j, What: "resurrected older version is active", Class: "F7", Got: g, Replay: json.RawMessage(line)})
						}
					}
					nontrivial = true
				}
			}
		})
		if nontrivial {
			res.Nontrivial++
		}
		return nil
	})
	if err != nil {
		t.Fatal(err)
	}
}

// padOversized appends a version long past its retention (ignored by merge) with a long comment,
// so that the message exceeds half a gossip packet (cluster.OversizedMessage).
func padOversized(b []byte) []byte {
	junk := &pb.MeshSilence{Silence: &pb.Silence{Id: "00000000-0000-4000-8000-00000000dead",
		MatcherSets: []*pb.MatcherSet{{Matchers: []*pb.Matcher{{Type: pb.Matcher_EQUAL, Name: "a", Pattern: "x"}}}},
		StartsAt: tsOf(0, time.Second), EndsAt: tsOf(0, time.Second), UpdatedAt: tsOf(0, time.Second),
		Comment: strings.Repeat("padding ", 120), CreatedBy: "peer"},
		ExpiresAt: tsOf(-3600000, time.Second)}
	var buf bytes.Buffer
	buf.Write(b)
	if _, err := protodelim.MarshalTo(&buf, junk); err != nil {
		panic(err)
	}
	return buf.Bytes()
}
