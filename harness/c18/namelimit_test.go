// TestNameLimit - behaviours of spec/mc/LimitsName.tla (Gen_LimitsName: the per-alert-name
// limit stated over the SET of unexpired admitted alerts) replayed through the real
// mem.Alerts provider with the limit option, its GC ticker (period g of the behaviour),
// POST/GET /api/v2/alerts and alertmanager_alerts_limited_total, under virtual time.
//
// Model instant t = Origin + t units; a submission with end e is sent with startsAt = the
// current instant and endsAt = instant e + 1/4 unit; the provider's GC ticker fires half a
// unit before the instants k*g: no comparison at equality decides anything.
// After every step: the unexpired alerts GET /api/v2/alerts shows under every alert name
// (identity -> end time) and the counter are compared with the specification, and the
// clauses of the statement are evaluated on what the real code shows.
package c18

import (
	"bytes"
	"encoding/json"
	"fmt"
	"os"
	"sort"
	"testing"
	"testing/synctest"
	"time"

	"verif/harness/c13"
	"verif/harness/hx"
)

// endMap is a TLC function identity -> end time (printed as [] when empty).
type endMap map[string]int64

func (m *endMap) UnmarshalJSON(b []byte) error {
	*m = endMap{}
	if bytes.Equal(bytes.TrimSpace(b), []byte("[]")) {
		return nil
	}
	var x map[string]int64
	if err := json.Unmarshal(b, &x); err != nil {
		return err
	}
	*m = x
	return nil
}

type nlStep struct {
	E struct {
		Op     string `json:"op"`
		ID     string `json:"id"`
		Name   string `json:"name"`
		End    int64  `json:"end"`
		Res    string `json:"res"`
		Resend bool   `json:"resend"`
		Stored int64  `json:"stored"`
	} `json:"e"`
	T   int64             `json:"t"`
	G   int64             `json:"g"`
	Lim int               `json:"lim"`
	U   map[string]endMap `json:"u"`
}

func fmtEnds(m endMap) string {
	ks := make([]string, 0, len(m))
	for k := range m {
		ks = append(ks, k)
	}
	sort.Strings(ks)
	var b bytes.Buffer
	b.WriteString("{")
	for i, k := range ks {
		if i > 0 {
			b.WriteString(" ")
		}
		fmt.Fprintf(&b, "%s:%d", k, m[k])
	}
	b.WriteString("}")
	return b.String()
}

func TestNameLimit(t *testing.T) {
	res := hx.NewResult()
	defer res.Write()
	b, err := os.ReadFile(*libFile)
	if err != nil {
		t.Fatal(err)
	}
	var lib struct {
		N     int               `json:"n"`
		Names map[string]string `json:"names"`
	}
	if err := json.Unmarshal(b, &lib); err != nil || lib.N < 1 {
		t.Fatalf("library: %v %s", err, b)
	}
	const unit = time.Minute
	err = hx.Lines(*hx.In, func(i int, line []byte) error {
		var h []nlStep
		if err := json.Unmarshal(bytes.TrimSpace(line), &h); err != nil {
			return fmt.Errorf("line %d: %v", i, err)
		}
		if len(h) == 0 {
			return nil
		}
		res.Cases++
		res.Sample(line)
		nontrivial := false
		synctest.Test(t, func(t *testing.T) {
			y, err := c13.New(c13.Options{Unit: unit, RT: 5, Limit: lib.N, GCPer: h[0].G})
			if err != nil {
				t.Fatal(err)
			}
			defer y.Close()
			time.Sleep(unit / 2) // model instant 0; GC at g-1/2, 2g-1/2, ...
			var cur int64
			// what the real code shows: name -> identity -> end of the unexpired alerts
			shown := func() (map[string]endMap, error) {
				code, got, err := y.GetAlerts()
				if err != nil || code != 200 {
					return nil, fmt.Errorf("GET /api/v2/alerts: %d %v", code, err)
				}
				out := map[string]endMap{}
				now := time.Now()
				for _, g := range got {
					if !g.End.After(now) {
						continue
					}
					nm := g.Labels["alertname"]
					if out[nm] == nil {
						out[nm] = endMap{}
					}
					d := g.End.Sub(y.Origin) - unit/4
					if d%unit != 0 {
						return nil, fmt.Errorf("end time %v of %v is not one the harness sent", g.End, g.Labels)
					}
					out[nm][g.Labels["inst"]] = int64(d / unit)
				}
				return out, nil
			}
			prev := map[string]endMap{}
			var before float64 // alertmanager_alerts_limited_total after the previous step
			everAdmitted := map[string]int{}
			for j, st := range h {
				res.Steps++
				bad := func(class, what string, want, got any) {
					res.Add(hx.Mismatch{Case: i, Step: j, What: what, Class: class, Want: want, Got: got, Replay: json.RawMessage(line)})
				}
				switch st.E.Op {
				case "post":
					s, e := y.T(cur), y.T(st.E.End).Add(unit/4)
					w := y.Do("POST", "/api/v2/alerts", []c13.PostedAlert{{Labels: map[string]string{"alertname": st.E.Name, "inst": st.E.ID}, StartsAt: &s, EndsAt: &e}})
					if w.Code != 200 {
						bad("harness", "POST /api/v2/alerts", 200, w.Code)
						return
					}
					res.Count("posts", 1)
				case "tick":
					time.Sleep(unit)
					synctest.Wait()
					cur++
					res.Count("gc_deleted", len(y.Deleted()))
				default:
					bad("harness", "unknown op "+st.E.Op, nil, nil)
					return
				}
				if cur != st.T || y.Now() != cur || !y.OnGrid() {
					bad("harness", "model time", st.T, y.Now())
					return
				}
				got, err := shown()
				if err != nil {
					bad("harness", err.Error(), nil, nil)
					return
				}
				after, _ := y.Counter("alertmanager_alerts_limited_total")
				where := fmt.Sprintf("limit %d, GC period %d, instant %d", lib.N, st.G, cur)
				// the statement, on what the real code shows
				for nm, m := range got {
					if len(m) > lib.N {
						bad("overlimit", fmt.Sprintf("%s: %d distinct unexpired alerts of alert name %s are shown by GET /api/v2/alerts: %s (before the step: %s)",
							where, len(m), nm, fmtEnds(m), fmtEnds(prev[nm])), fmtEnds(st.U[nm]), fmtEnds(m))
						return
					}
				}
				if st.E.Op == "post" {
					_, wasShown := prev[st.E.Name][st.E.ID]
					end, isShown := got[st.E.Name][st.E.ID]
					refused := after != before
					if wasShown && (refused || !isShown || end < st.E.End) {
						bad("resend", fmt.Sprintf("%s: re-send of the admitted, unexpired alert %s (end %d) with end %d was not accepted (shown after: %s, alertmanager_alerts_limited_total %v -> %v)",
							where, st.E.ID, prev[st.E.Name][st.E.ID], st.E.End, fmtEnds(got[st.E.Name]), before, after), "accepted", "refused")
						return
					}
					for id, e := range prev[st.E.Name] {
						if e2, ok := got[st.E.Name][id]; !ok || e2 < e {
							bad("room", fmt.Sprintf("%s: the submission of %s removed or shortened the unexpired admitted alert %s: %s -> %s",
								where, st.E.ID, id, fmtEnds(prev[st.E.Name]), fmtEnds(got[st.E.Name])), fmtEnds(st.U[st.E.Name]), fmtEnds(got[st.E.Name]))
							return
						}
					}
					if !wasShown && !isShown && !refused {
						bad("counter", fmt.Sprintf("%s: the submission of %s was refused silently (alertmanager_alerts_limited_total stays %v)", where, st.E.ID, after), "counted", "silent")
						return
					}
					// ... and against the specification
					switch {
					case st.E.Res == "ok" && (refused || !isShown || end != st.E.Stored):
						cls := "admission"
						if st.E.Resend {
							cls = "resend"
						}
						bad(cls, fmt.Sprintf("%s: submission of %s (end %d) with %d unexpired alerts of the name admitted: %s", where, st.E.ID, st.E.End, len(prev[st.E.Name]), fmtEnds(prev[st.E.Name])),
							fmt.Sprintf("accepted, end %d", st.E.Stored), fmt.Sprintf("refused=%v shown=%v end=%d", refused, isShown, end))
						return
					case st.E.Res == "limited" && (!refused || isShown):
						bad("admission", fmt.Sprintf("%s: submission of the new alert %s with %d unexpired alerts of the name admitted: %s", where, st.E.ID, len(prev[st.E.Name]), fmtEnds(prev[st.E.Name])),
							"refused and counted", fmt.Sprintf("refused=%v shown=%v", refused, isShown))
						return
					}
					if st.E.Res == "limited" {
						res.Count("refusals", 1)
						nontrivial = true
					} else if st.E.Resend {
						res.Count("resends_of_unexpired", 1)
					} else {
						if everAdmitted[st.E.Name] >= lib.N {
							res.Count("admitted_into_room_made_by_expiry", 1)
							nontrivial = true
						}
						everAdmitted[st.E.Name]++
					}
				}
				for nm := range st.U {
					if !endsEqual(st.U[nm], got[nm]) {
						bad("admission", fmt.Sprintf("%s: unexpired alerts of alert name %s shown by GET /api/v2/alerts", where, nm), fmtEnds(st.U[nm]), fmtEnds(got[nm]))
						return
					}
				}
				if int(after) != st.Lim {
					bad("counter", where+": alertmanager_alerts_limited_total", st.Lim, after)
					return
				}
				prev, before = got, after
			}
		})
		if nontrivial {
			res.Nontrivial++
		}
		return nil
	})
	if err != nil {
		t.Fatal(err)
	}
}

func endsEqual(a, b endMap) bool {
	if len(a) != len(b) {
		return false
	}
	for k, v := range a {
		if w, ok := b[k]; !ok || v != w {
			return false
		}
	}
	return true
}
