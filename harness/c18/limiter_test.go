// TestLimiter - behaviours of spec/Limits.tla (Gen_Limits) replayed on the real
// api.New(...) + Register handler chain: the GET concurrency limiter (Options.Concurrency)
// and the request timeout (Options.Timeout) as they are wired in api/api.go.
//
// The GET handlers are gated from outside: GET /api/v2/alerts/groups calls the injected
// GroupFunc, GET /-/park is a route of the main router handed to Register (it passes through
// the same limiter); both block on a channel the harness closes at the "finish" step, and
// both count the handler bodies that are executing.  Time is virtual (testing/synctest): a
// "tick" step sleeps one unit, the timeout is T units.  After every step the harness compares
//   - the reply the client got (none yet / 200 / 503),
//   - the number of handler bodies RUNNING with the specification's `running`,
//   - the number of clients still waiting with `waiting`,
//   - alertmanager_http_concurrency_limit_exceeded_total and alertmanager_http_requests_in_flight.
package c18

import (
	"bytes"
	"context"
	"encoding/json"
	"fmt"
	"net/http"
	"net/http/httptest"
	"os"
	"strings"
	"sync"
	"sync/atomic"
	"testing"
	"testing/synctest"
	"time"

	"github.com/prometheus/client_golang/prometheus"
	dto "github.com/prometheus/client_model/go"
	"github.com/prometheus/common/model"
	"github.com/prometheus/common/promslog"
	"github.com/prometheus/common/route"

	"github.com/prometheus/alertmanager/alert"
	"github.com/prometheus/alertmanager/api"
	"github.com/prometheus/alertmanager/config"
	"github.com/prometheus/alertmanager/dispatch"
	"github.com/prometheus/alertmanager/eventrecorder"
	"github.com/prometheus/alertmanager/featurecontrol"
	"github.com/prometheus/alertmanager/matcher/compat"
	"github.com/prometheus/alertmanager/provider/mem"
	"github.com/prometheus/alertmanager/silence"

	"verif/harness/c13"
	"verif/harness/hx"
)

// limSys is the real API handler chain with a concurrency limit and a timeout.
type limSys struct {
	reg     *prometheus.Registry
	alerts  *mem.Alerts
	handler http.Handler
	entered chan chan struct{} // a handler body announces itself with the gate it waits on
	bodies  atomic.Int64       // handler bodies executing right now
	peak    int64
}

var limCompat sync.Once

func newLimSys(concurrency int, timeout time.Duration) (*limSys, error) {
	limCompat.Do(func() { compat.InitFromFlags(promslog.NewNopLogger(), featurecontrol.NoopFlags{}) })
	y := &limSys{reg: prometheus.NewRegistry(), entered: make(chan chan struct{}, 64)}
	logger := promslog.NewNopLogger()
	sil, err := silence.New(silence.Options{Retention: 1000 * time.Hour, Metrics: y.reg, Logger: logger, EventRecorder: eventrecorder.NopRecorder()})
	if err != nil {
		return nil, err
	}
	y.alerts, err = mem.NewAlerts(context.Background(), 100000*time.Hour, 0, nil, logger, eventrecorder.NopRecorder(), y.reg, featurecontrol.NoopFlags{})
	if err != nil {
		return nil, err
	}
	// the body of a slow GET handler: announce, wait for the gate, leave
	body := func() {
		n := y.bodies.Add(1)
		if n > atomic.LoadInt64(&y.peak) {
			atomic.StoreInt64(&y.peak, n)
		}
		ch := make(chan struct{})
		y.entered <- ch
		<-ch
		y.bodies.Add(-1)
	}
	a, err := api.New(api.Options{
		Alerts:         y.alerts,
		Silences:       sil,
		GroupMutedFunc: func(routeID, groupKey string) ([]string, bool) { return nil, false },
		GroupFunc: func(context.Context, func(*dispatch.Route) bool, func(*alert.Alert, time.Time) bool) (dispatch.AlertGroups, map[model.Fingerprint][]string, error) {
			body() // the context is ignored, as by a handler that waits for a lock
			return dispatch.AlertGroups{}, map[model.Fingerprint][]string{}, nil
		},
		Timeout:     timeout,
		Concurrency: concurrency,
		Logger:      logger,
		Registry:    y.reg,
		RequestDuration: prometheus.NewHistogramVec(prometheus.HistogramOpts{
			Name: "alertmanager_http_request_duration_seconds", Help: "x"},
			[]string{"handler", "method", "code"}),
	})
	if err != nil {
		return nil, err
	}
	cfg, err := config.Load(c13.ConfigYAML(5 * time.Minute))
	if err != nil {
		return nil, err
	}
	a.Update(cfg, func(context.Context, model.LabelSet) {})
	rt := route.New()
	rt.Get("/-/park", func(w http.ResponseWriter, _ *http.Request) {
		body()
		w.WriteHeader(200)
	})
	y.handler = a.Register(rt, "/")
	return y, nil
}

func (y *limSys) do(method, path string, body []byte) *httptest.ResponseRecorder {
	req := httptest.NewRequest(method, path, bytes.NewReader(body))
	if body != nil {
		req.Header.Set("Content-Type", "application/json")
	}
	w := httptest.NewRecorder()
	y.handler.ServeHTTP(w, req)
	return w
}

func (y *limSys) metric(name string) (float64, bool) {
	mfs, err := y.reg.Gather()
	if err != nil {
		return 0, false
	}
	for _, mf := range mfs {
		if mf.GetName() != name {
			continue
		}
		var s float64
		for _, m := range mf.Metric {
			switch mf.GetType() {
			case dto.MetricType_COUNTER:
				s += m.GetCounter().GetValue()
			case dto.MetricType_GAUGE:
				s += m.GetGauge().GetValue()
			}
		}
		return s, true
	}
	return 0, false
}

type limStep struct {
	E struct {
		Op   string `json:"op"`
		R    int    `json:"r"`
		Code int    `json:"code"`
		Out  []int  `json:"out"`
	} `json:"e"`
	Running  []int `json:"running"`
	Waiting  []int `json:"waiting"`
	Exceeded int   `json:"exceeded"`
}

type limReply struct {
	code int
	body string
}

func TestLimiter(t *testing.T) {
	res := hx.NewResult()
	defer res.Write()
	b, err := os.ReadFile(*libFile)
	if err != nil {
		t.Fatal(err)
	}
	var lib struct {
		K int `json:"k"`
		T int `json:"t"`
	}
	if err := json.Unmarshal(b, &lib); err != nil || lib.K < 1 || lib.T < 0 {
		t.Fatalf("library: %v %s", err, b)
	}
	const unit = time.Second
	err = hx.Lines(*hx.In, func(i int, line []byte) error {
		var h []limStep
		if err := json.Unmarshal(bytes.TrimSpace(line), &h); err != nil {
			return fmt.Errorf("line %d: %v", i, err)
		}
		res.Cases++
		res.Sample(line)
		nontrivial := false
		synctest.Test(t, func(t *testing.T) {
			y, err := newLimSys(lib.K, time.Duration(lib.T)*unit)
			if err != nil {
				t.Fatal(err)
			}
			gate := map[int]chan struct{}{}  // handler bodies running, by request
			reply := map[int]chan limReply{} // clients still waiting, by request
			failed := false
			var gauge *hx.Mismatch // first disagreement of the in-flight gauge: reported if nothing else is
			defer func() {
				if !failed && gauge != nil {
					res.Add(*gauge)
				}
				// every goroutine of the bubble has to end: open all gates (also of handlers the
				// specification did not expect), let the clients collect their replies
				for {
					synctest.Wait()
					select {
					case ch := <-y.entered:
						close(ch)
						continue
					default:
					}
					break
				}
				for _, ch := range gate {
					close(ch)
				}
				synctest.Wait()
				y.alerts.Close()
			}()
			for j, st := range h {
				res.Steps++
				bad := func(class, what string, want, got any) {
					failed = true
					res.Add(hx.Mismatch{Case: i, Step: j, What: what, Class: class, Want: want, Got: got, Replay: json.RawMessage(line)})
				}
				switch st.E.Op {
				case "get":
					rc := make(chan limReply, 1)
					// all request mixes: every other parked GET goes to a route of the main router
					path := "/api/v2/alerts/groups"
					if (i+j)%2 == 1 {
						path = "/-/park"
					}
					go func() {
						w := y.do("GET", path, nil)
						rc <- limReply{w.Code, w.Body.String()}
					}()
					synctest.Wait()
					select {
					case ch := <-y.entered:
						gate[st.E.R] = ch
						reply[st.E.R] = rc
						if st.E.Code != 0 {
							bad("concurrency", fmt.Sprintf("GET %s arriving while %d GET handler bodies are running (limit %d) was admitted: %d bodies running now",
								path, len(st.Running), lib.K, y.bodies.Load()), st.E.Code, "inside its handler")
							return
						}
					default:
						var got limReply
						select {
						case got = <-rc:
						default:
						}
						if got.code != st.E.Code {
							bad("concurrency", "GET "+path, st.E.Code, got.code)
							return
						}
						if got.code == 503 {
							res.Count("refused_503", 1)
							nontrivial = true
							if len(st.Running) > len(st.Waiting) {
								res.Count("refused_while_timed_out_handlers_run", 1)
							}
						}
					}
				case "finish":
					ch, ok := gate[st.E.R]
					if !ok {
						bad("harness", "finish of a request that is not in its handler", st.E.R, nil)
						return
					}
					close(ch)
					delete(gate, st.E.R)
					synctest.Wait()
					var got limReply
					if rc, ok := reply[st.E.R]; ok {
						select {
						case got = <-rc:
						default:
						}
						delete(reply, st.E.R)
					} else {
						res.Count("finish_after_timeout", 1)
					}
					if got.code != st.E.Code {
						bad("concurrency", "reply of a GET released from its handler", st.E.Code, got.code)
						return
					}
				case "tick":
					time.Sleep(unit)
					synctest.Wait()
					for _, r := range st.E.Out {
						var got limReply
						if rc, ok := reply[r]; ok {
							select {
							case got = <-rc:
							default:
							}
							delete(reply, r)
						}
						if got.code != 503 {
							bad("timeout", fmt.Sprintf("request %d has waited %d units (timeout %d)", r, lib.T, lib.T), 503, got.code)
							return
						}
						if strings.Contains(got.body, "timeout") {
							res.Count("timed_out", 1)
						}
					}
				case "getquick":
					if code := y.do("GET", "/api/v2/alerts", nil).Code; code != st.E.Code {
						what := "GET /api/v2/alerts"
						if st.E.Code == 503 {
							what = fmt.Sprintf("GET /api/v2/alerts while %d GET handler bodies are running (limit %d)", y.bodies.Load(), lib.K)
						}
						bad("concurrency", what, st.E.Code, code)
						return
					} else if code == 503 {
						res.Count("refused_503", 1)
						nontrivial = true
						if len(st.Running) > len(st.Waiting) {
							res.Count("refused_while_timed_out_handlers_run", 1)
						}
					}
				case "post":
					code := y.do("POST", "/api/v2/alerts", []byte(`[{"labels":{"alertname":"A"}}]`)).Code
					if code != st.E.Code {
						bad("concurrency", "POST /api/v2/alerts", st.E.Code, code)
						return
					}
					if len(st.Running) >= lib.K {
						res.Count("post_while_full", 1)
					}
				default:
					bad("harness", "unknown op "+st.E.Op, nil, nil)
					return
				}
				// the state the real code shows
				if n := int(y.bodies.Load()); n != len(st.Running) || n != len(gate) {
					bad("concurrency", "GET handler bodies running", len(st.Running), n)
					return
				}
				if n := int(y.bodies.Load()); n > lib.K {
					bad("concurrency", "more GET handler bodies running than the configured concurrency", lib.K, n)
					return
				}
				for r, rc := range reply { // nobody else was answered
					if len(rc) > 0 {
						got := <-rc
						bad("concurrency", fmt.Sprintf("request %d was answered although the specification has it waiting", r), nil, got.code)
						return
					}
				}
				if len(reply) != len(st.Waiting) {
					bad("concurrency", "clients waiting for a reply", st.Waiting, len(reply))
					return
				}
				ex, _ := y.metric("alertmanager_http_concurrency_limit_exceeded_total")
				if int(ex) != st.Exceeded {
					bad("counter", "alertmanager_http_concurrency_limit_exceeded_total", st.Exceeded, ex)
					return
				}
				if g, ok := y.metric("alertmanager_http_requests_in_flight"); (!ok || int(g) != len(st.Running)) && gauge == nil {
					gauge = &hx.Mismatch{Case: i, Step: j, What: fmt.Sprintf("alertmanager_http_requests_in_flight while %d GET handler bodies are running", y.bodies.Load()),
						Class: "counter", Want: len(st.Running), Got: g, Replay: json.RawMessage(line)}
				}
			}
		})
		if nontrivial {
			res.Nontrivial++
		}
		return nil
	})
	if err != nil {
		t.Fatal(err)
	}
}
