//go:build verif

// Package dsched replays TLC-generated SCHEDULES of spec/Dispatch.tla (spec/mc/Gen_Dispatch)
// on the real dispatcher of one real instance (harness/inst) at the granularity of the
// model's actions.
//
// Every goroutine of the dispatcher's group management is parked at every gate point the
// real code offers: the hook dispatch.VerifPoint (worker.recv, group.create, group.store,
// flush.tick, flush.begin, flush.ok, maint.destroyed, maint.delete; group.loaded and
// flush.done are observed and passed) and the START of the tracing span
// "dispatch.AggregationGroup.insert" (a TracerProvider installed with
// otel.SetTracerProvider: the span starts inside aggrGroup.insert just before the store's
// Set, i.e. after everything the caller checked).  The scheduler releases exactly the
// goroutine the schedule's next step names, waits (synctest.Wait) until it parks at its
// next gate or finishes, projects the real state (group map, each known group's content /
// destroyed / cancelled / running) and compares it with the abstract state TLC printed.
//
// Verdicts come from the PROPERTY evaluated on the real system at the end of each
// schedule, through the API and the delivered notifications:
//
//	C06 lost     the provider holds the alert as firing, its worker has finished, and
//	             GET /api/v2/alerts/groups shows it in no group
//	C06 split    it is shown in two groups, or two live aggregation groups notify for the
//	             one group key
//	C06 missing  it is in a group, yet the last notification of that group after two more
//	             flush periods does not contain it as firing
//	C14 stale    the group does not hold the most recently submitted version
//
// A schedule that hands the versions over out of submission order (finding F3, listed) is
// excused when the real result is the one the model computes.  Differences between model
// and real state that do not contradict the property are counted as drift, never reported
// as violations.
package dsched

import (
	"bytes"
	"context"
	"encoding/json"
	"fmt"
	"math/rand"
	"os"
	"runtime"
	"sort"
	"strconv"
	"strings"
	"sync"
	"sync/atomic"
	"testing"
	"testing/synctest"
	"time"

	"github.com/prometheus/common/promslog"
	"go.opentelemetry.io/otel"
	"go.opentelemetry.io/otel/trace"
	"go.opentelemetry.io/otel/trace/embedded"
	"go.opentelemetry.io/otel/trace/noop"

	"github.com/prometheus/alertmanager/alert"
	"github.com/prometheus/alertmanager/dispatch"
	"github.com/prometheus/alertmanager/notify"
	"github.com/prometheus/alertmanager/tracing"

	"verif/harness/hx"
	"verif/harness/inst"
)

// ---------------------------------------------------------------- schedule (TLC output)

type gState struct {
	Ver       int    `json:"ver"`
	Destroyed bool   `json:"destroyed"`
	Cancelled bool   `json:"cancelled"`
	Running   bool   `json:"running"`
	Frozen    int    `json:"frozen"`
	Fl        string `json:"fl"`
}

type wState struct {
	Pc     string `json:"pc"`
	V      int    `json:"v"`
	El     int    `json:"el"`
	Ag     int    `json:"ag"`
	Loaded bool   `json:"loaded"`
}

type mState struct {
	Pc string `json:"pc"`
	G  int    `json:"g"`
}

type absState struct {
	Gmap  int               `json:"gmap"`
	Grp   []gState          `json:"grp"`
	W     map[string]wState `json:"w"`
	Maint mState            `json:"maint"`
}

type step struct {
	A   string   `json:"a"`
	Act string   `json:"act"`
	V   int      `json:"v"`
	G   int      `json:"g"`
	Ok  bool     `json:"ok"`
	St  absState `json:"st"`
}

type schedule struct {
	Steps    []step `json:"steps"`
	InOrder  bool   `json:"inorder"`
	Latest   bool   `json:"latest"`
	NoOrphan bool   `json:"noorphan"`
	OneLive  bool   `json:"onelive"`
	Np       int    `json:"np"`
}

// ---------------------------------------------------------------- gates

const spanInsert = "dispatch.AggregationGroup.insert"

func goid() int64 {
	var buf [64]byte
	n := runtime.Stack(buf[:], false)
	f := strings.Fields(string(buf[:n]))
	if len(f) < 2 {
		return -1
	}
	id, _ := strconv.ParseInt(f[1], 10, 64)
	return id
}

type parkedG struct {
	gate string
	goid int64
	ch   chan struct{}
	ver  int    // worker gates: the version the worker holds
	ag   string // flush gates: uuid of the aggregation group
	snap []int  // flush.begin: versions in the frozen content
}

type workerInfo struct {
	ver      int
	creating bool // between group.create and group.store: the insert span belongs to the private group
	loaded   []bool
}

type gateEv struct {
	Goid int64  `json:"goid"`
	Gate string `json:"gate"`
	Info string `json:"info,omitempty"`
}

type sched struct {
	mu      sync.Mutex
	free    bool
	freeG   map[int64]bool // goroutines for which every gate is open
	parked  map[int64]*parkedG
	workers map[int64]*workerInfo
	verOf   map[int64]int // UpdatedAt (ms) -> version
	passed  []gateEv
	unknown int
}

var cur atomic.Pointer[sched]

func verifHook(name string, args ...any) {
	if s := cur.Load(); s != nil {
		s.gate(name, args...)
	}
}

func ms(t time.Time) int64 { return int64(t.Sub(hx.Epoch) / time.Millisecond) }

func agOf(x any) string {
	if ctx, ok := x.(context.Context); ok {
		id, _ := notify.AggrGroupID(ctx)
		return id
	}
	return ""
}

func (s *sched) gate(name string, args ...any) {
	id := goid()
	s.mu.Lock()
	if s.free || s.freeG[id] {
		s.mu.Unlock()
		return
	}
	p := &parkedG{gate: name, goid: id}
	opaque := false
	switch name {
	case "worker.recv":
		a := args[0].(*alert.Alert)
		wi := &workerInfo{ver: s.verOf[ms(a.UpdatedAt)]}
		s.workers[id] = wi
		p.ver = wi.ver
		opaque = true
	case "group.loaded":
		if wi := s.workers[id]; wi != nil {
			wi.loaded = append(wi.loaded, args[1].(bool))
		}
	case "group.create":
		if wi := s.workers[id]; wi != nil {
			wi.creating = true
			p.ver = wi.ver
			opaque = true
		} else {
			s.unknown++
		}
	case "group.store":
		if wi := s.workers[id]; wi != nil {
			wi.creating = false
			p.ver = wi.ver
			opaque = true
		} else {
			s.unknown++
		}
	case spanInsert:
		wi := s.workers[id]
		switch {
		case wi == nil:
			s.unknown++
		case wi.creating:
		default:
			p.ver = wi.ver
			opaque = true
		}
	case "flush.tick":
		p.ag = agOf(args[2])
		opaque = true
	case "flush.begin":
		p.ag = agOf(args[3])
		for _, a := range args[2].(alert.AlertSlice) {
			p.snap = append(p.snap, s.verOf[ms(a.UpdatedAt)])
		}
		opaque = true
	case "flush.ok":
		p.ag = agOf(args[1])
		opaque = true
	case "flush.done":
		s.passed = append(s.passed, gateEv{Goid: id, Gate: name, Info: agOf(args[1])})
	case "maint.destroyed", "maint.delete":
		opaque = true
	}
	if !opaque {
		s.mu.Unlock()
		return
	}
	p.ch = make(chan struct{})
	s.parked[id] = p
	s.mu.Unlock()
	<-p.ch
}

func (s *sched) release(p *parkedG) {
	s.mu.Lock()
	delete(s.parked, p.goid)
	s.mu.Unlock()
	close(p.ch)
}

// freeRun opens every gate for good.
func (s *sched) freeRun() {
	s.mu.Lock()
	s.free = true
	ps := s.parked
	s.parked = map[int64]*parkedG{}
	s.mu.Unlock()
	for _, p := range ps {
		close(p.ch)
	}
}

func (s *sched) find(f func(*parkedG) bool) *parkedG {
	s.mu.Lock()
	defer s.mu.Unlock()
	for _, p := range s.parked {
		if f(p) {
			return p
		}
	}
	return nil
}

func (s *sched) parkedList() []*parkedG {
	s.mu.Lock()
	defer s.mu.Unlock()
	var out []*parkedG
	for _, p := range s.parked {
		out = append(out, p)
	}
	return out
}

func (s *sched) at(id int64) *parkedG {
	s.mu.Lock()
	defer s.mu.Unlock()
	return s.parked[id]
}

// ---------------------------------------------------------------- tracer provider = gate at span start

type gateProvider struct{ embedded.TracerProvider }

func (gateProvider) Tracer(string, ...trace.TracerOption) trace.Tracer {
	return gateTracer{inner: noop.NewTracerProvider().Tracer("")}
}

type gateTracer struct {
	embedded.Tracer
	inner trace.Tracer
}

func (t gateTracer) Start(ctx context.Context, name string, opts ...trace.SpanStartOption) (context.Context, trace.Span) {
	if name == spanInsert {
		if s := cur.Load(); s != nil {
			s.gate(name)
		}
	}
	return t.inner.Start(ctx, name, opts...)
}

// ---------------------------------------------------------------- the instance

const (
	groupWait     = 10 * time.Second
	groupInterval = 5 * time.Minute
	maintInterval = time.Hour
)

const cfgYAML = `
route:
  receiver: r1
  group_by: [g]
  group_wait: 10s
  group_interval: 5m
  repeat_interval: 4h
receivers:
- name: r1
  webhook_configs:
  - url: http://127.0.0.1:1/0
    send_resolved: true
`

var alertLabels = map[string]string{"alertname": "A1", "g": "1", "x": "a"}

type apiAlert struct {
	Labels    map[string]string `json:"labels"`
	UpdatedAt time.Time         `json:"updatedAt"`
	EndsAt    time.Time         `json:"endsAt"`
	Status    struct {
		State string `json:"state"`
	} `json:"status"`
}

type apiGroup struct {
	Labels map[string]string `json:"labels"`
	Alerts []apiAlert        `json:"alerts"`
}

// observation of the real system through its API
type observation struct {
	ProvFiring bool  `json:"prov_firing"` // GET /api/v2/alerts lists the alert (unresolved)
	ProvVer    int   `json:"prov_ver"`
	InGroups   int   `json:"in_groups"` // number of groups of GET /api/v2/alerts/groups that contain it
	GroupVers  []int `json:"group_vers"`
	Held       []int `json:"held"` // versions in the groups of Dispatcher.Groups (resolved ones included)
}

type deviation struct {
	Step int    `json:"step"`
	What string `json:"what"`
}

type runner struct {
	t         *testing.T
	c         *schedule
	s         *sched
	in        *inst.Instance
	lg        *inst.Log
	res       *hx.Result
	wgoid     map[string]int64            // model worker -> goroutine
	bound     map[int]dispatch.VerifGroup // model group id -> real group
	resolved  map[int]bool
	notes     []string
	drift     int
	dev       *deviation
	steps     int
	submitted int
	order     []int // versions in the order in which their workers finished
}

func (r *runner) verOfAlertTime(t time.Time) int {
	r.s.mu.Lock()
	defer r.s.mu.Unlock()
	return r.s.verOf[ms(t)]
}

func (r *runner) observe() observation {
	var o observation
	var as []apiAlert
	if code := r.in.Get("/api/v2/alerts", &as); code != 200 {
		o.ProvVer = -1
		return o
	}
	for _, a := range as {
		if a.Labels["x"] == alertLabels["x"] && a.Labels["alertname"] == alertLabels["alertname"] {
			o.ProvFiring = true
			o.ProvVer = r.verOfAlertTime(a.UpdatedAt)
		}
	}
	var gs []apiGroup
	if code := r.in.Get("/api/v2/alerts/groups", &gs); code != 200 {
		o.InGroups = -1
		return o
	}
	for _, g := range gs {
		for _, a := range g.Alerts {
			if a.Labels["x"] == alertLabels["x"] && a.Labels["alertname"] == alertLabels["alertname"] {
				o.InGroups++
				o.GroupVers = append(o.GroupVers, r.verOfAlertTime(a.UpdatedAt))
			}
		}
	}
	groups, _, err := r.in.R.Groups(context.Background(), func(*dispatch.Route) bool { return true }, func(*alert.Alert, time.Time) bool { return true })
	if err != nil {
		o.InGroups = -1
		return o
	}
	for _, g := range groups {
		for _, a := range g.Alerts {
			o.Held = append(o.Held, r.verOfAlertTime(a.UpdatedAt))
		}
	}
	return o
}

func (r *runner) drifted(j int, what string, want, got any) {
	r.drift++
	r.res.Count("drift_"+what, 1)
	if len(r.notes) < 4 {
		r.notes = append(r.notes, fmt.Sprintf("step %d (%s %s): %s: model %v, real %v", j, r.c.Steps[j].A, r.c.Steps[j].Act, what, want, got))
	}
}

func gateOfPc(pc string) string {
	switch pc {
	case "got":
		return "worker.recv"
	case "insert", "insert2":
		return spanInsert
	case "create":
		return "group.create"
	case "store":
		return "group.store"
	}
	return ""
}

func gateOfFl(fl string) string {
	switch fl {
	case "begun":
		return "flush.begin"
	case "ok":
		return "flush.ok"
	}
	return ""
}

func gateOfMaint(pc string) string {
	switch pc {
	case "stop":
		return "maint.destroyed"
	case "delete":
		return "maint.delete"
	}
	return ""
}

func (r *runner) flusherOf(g int) *parkedG {
	h, ok := r.bound[g]
	if !ok {
		return nil
	}
	id := h.State().ID
	return r.s.find(func(p *parkedG) bool { return strings.HasPrefix(p.gate, "flush.") && p.ag == id })
}

func (r *runner) maintG() *parkedG {
	return r.s.find(func(p *parkedG) bool { return strings.HasPrefix(p.gate, "maint.") })
}

// where is the acting goroutine now
func (r *runner) whereWorker(x string) string {
	id, ok := r.wgoid[x]
	if !ok {
		return "?"
	}
	if p := r.s.at(id); p != nil {
		return p.gate
	}
	return ""
}

func post(in *inst.Instance, resolved bool) int {
	now := time.Now()
	pa := inst.PostAlert{Labels: alertLabels}
	end := now.Add(100 * time.Hour)
	if resolved {
		end = now
	}
	pa.StartsAt = &now
	pa.EndsAt = &end
	return in.PostAlerts([]inst.PostAlert{pa})
}

// exec executes step j; it returns a non-empty string if the real code cannot take the
// step, or takes it to another place than the model says.
func (r *runner) exec(j int) string {
	st := r.c.Steps[j]
	s := r.s
	switch st.Act {
	case "Recv":
		time.Sleep(time.Millisecond)
		s.mu.Lock()
		s.verOf[inst.Ms()] = st.V
		s.mu.Unlock()
		if code := post(r.in, r.resolved[st.V]); code != 200 {
			return fmt.Sprintf("POST of version %d answered %d", st.V, code)
		}
		r.submitted = st.V
		synctest.Wait()
		p := s.find(func(p *parkedG) bool { return p.gate == "worker.recv" && p.ver == st.V })
		if p == nil {
			return fmt.Sprintf("no ingestion worker received version %d", st.V)
		}
		r.wgoid[st.A] = p.goid
	case "Load", "Insert", "Create", "Store":
		want := map[string]string{"Load": "worker.recv", "Insert": spanInsert, "Create": "group.create", "Store": "group.store"}[st.Act]
		id, ok := r.wgoid[st.A]
		if !ok {
			return "worker " + st.A + " holds no alert"
		}
		p := s.at(id)
		if p == nil || p.gate != want {
			return fmt.Sprintf("worker %s (version %d) is not at %s but at %q", st.A, st.V, want, r.whereWorker(st.A))
		}
		s.release(p)
		synctest.Wait()
		if r.whereWorker(st.A) == "" {
			r.order = append(r.order, p.ver)
		}
		if got, exp := r.whereWorker(st.A), gateOfPc(st.St.W[st.A].Pc); got != exp {
			return fmt.Sprintf("after %s of version %d worker %s is at %q, the model says %q", st.Act, st.V, st.A, got, exp)
		}
	case "FlushBegin":
		if _, ok := r.bound[st.G]; !ok {
			return fmt.Sprintf("group %d was never seen in the map", st.G)
		}
		var p *parkedG
		for i := 0; i < 40; i++ {
			if p = r.flusherOf(st.G); p != nil {
				break
			}
			time.Sleep(groupWait)
			synctest.Wait()
		}
		if p == nil || p.gate != "flush.tick" {
			return fmt.Sprintf("the run loop of group %d does not reach flush.tick", st.G)
		}
		s.release(p)
		synctest.Wait()
		p = r.flusherOf(st.G)
		if p == nil || p.gate != "flush.begin" {
			return fmt.Sprintf("after the tick group %d does not reach flush.begin", st.G)
		}
		if fz := st.St.Grp[st.G-1].Frozen; len(p.snap) != 1 || p.snap[0] != fz {
			r.drifted(j, "flush_content", fz, p.snap)
		}
	case "FlushNotify":
		p := r.flusherOf(st.G)
		if p == nil || p.gate != "flush.begin" {
			return fmt.Sprintf("group %d is not at flush.begin", st.G)
		}
		s.release(p)
		for i := 0; i < 200; i++ {
			synctest.Wait()
			if p = r.flusherOf(st.G); p != nil {
				break
			}
			time.Sleep(time.Millisecond)
		}
		if p == nil || p.gate != "flush.ok" {
			return fmt.Sprintf("the notification of group %d does not reach flush.ok", st.G)
		}
	case "FlushEnd":
		p := r.flusherOf(st.G)
		if p == nil || p.gate != "flush.ok" {
			return fmt.Sprintf("group %d is not at flush.ok", st.G)
		}
		s.release(p)
		synctest.Wait()
		if p = r.flusherOf(st.G); p != nil && p.gate != "flush.tick" {
			return fmt.Sprintf("after the end of its flush group %d is at %s", st.G, p.gate)
		}
	case "MaintCheck":
		var p *parkedG
		for i := 0; i < 62; i++ {
			if p = r.maintG(); p != nil {
				break
			}
			time.Sleep(time.Minute)
			synctest.Wait()
		}
		if p == nil || p.gate != "maint.destroyed" {
			return "the maintenance sweep does not find a destroyed group"
		}
	case "MaintStop", "MaintDelete":
		want := map[string]string{"MaintStop": "maint.destroyed", "MaintDelete": "maint.delete"}[st.Act]
		p := r.maintG()
		if p == nil || p.gate != want {
			return "the maintenance sweep is not at " + want
		}
		s.release(p)
		synctest.Wait()
		got := ""
		if p = r.maintG(); p != nil {
			got = p.gate
		}
		if exp := gateOfMaint(st.St.Maint.Pc); got != exp {
			return fmt.Sprintf("after %s the maintenance sweep is at %q, the model says %q", st.Act, got, exp)
		}
	default:
		return "unknown action " + st.Act
	}
	return ""
}

// compare the projection of the real state with the abstract state after step j
func (r *runner) compare(j int) {
	st := r.c.Steps[j].St
	d := r.in.R.Dispatcher()
	mapped := d.VerifMapped()
	if len(mapped) > 1 {
		r.drifted(j, "map_entries", 1, len(mapped))
	}
	var hm dispatch.VerifGroup
	if len(mapped) > 0 {
		hm = mapped[0]
	}
	realG := 0
	if !hm.Nil() {
		realG = -1
		for g, h := range r.bound {
			if h.Same(hm) {
				realG = g
			}
		}
		if realG == -1 && st.Gmap != 0 {
			if _, ok := r.bound[st.Gmap]; !ok {
				r.bound[st.Gmap] = hm
				realG = st.Gmap
			}
		}
	}
	if realG != st.Gmap {
		r.drifted(j, "map_entry", st.Gmap, realG)
	}
	for g, h := range r.bound {
		if g > len(st.Grp) {
			continue
		}
		m := st.Grp[g-1]
		hs := h.State()
		ver := 0
		for _, a := range hs.Alerts {
			ver = r.verOfAlertTime(a.UpdatedAt)
		}
		if len(hs.Alerts) > 1 {
			ver = -2
		}
		if ver != m.Ver {
			r.drifted(j, "group_version", m.Ver, ver)
		}
		if hs.Destroyed != m.Destroyed {
			r.drifted(j, "group_destroyed", m.Destroyed, hs.Destroyed)
		}
		if hs.Cancelled != m.Cancelled {
			r.drifted(j, "group_cancelled", m.Cancelled, hs.Cancelled)
		}
		if hs.Running != m.Running {
			r.drifted(j, "group_running", m.Running, hs.Running)
		}
		if hs.Done != (m.Destroyed || m.Cancelled) && m.Running {
			r.drifted(j, "run_loop_ended", m.Destroyed || m.Cancelled, hs.Done)
		}
		want := gateOfFl(m.Fl)
		got := ""
		if p := r.flusherOf(g); p != nil && p.gate != "flush.tick" {
			got = p.gate
		}
		if got != want {
			r.drifted(j, "flush_position", want, got)
		}
	}
	for x, ws := range st.W {
		if _, ok := r.wgoid[x]; !ok {
			continue
		}
		if got, want := r.whereWorker(x), gateOfPc(ws.Pc); got != want {
			r.drifted(j, "worker_position", want, got)
		}
	}
	got := ""
	if p := r.maintG(); p != nil {
		got = p.gate
	}
	if want := gateOfMaint(st.Maint.Pc); got != want {
		r.drifted(j, "maint_position", want, got)
	}
	r.steps++
}

// features of the schedule (coverage), counted for schedules replayed in lock step
func features(c *schedule) map[string]bool {
	f := map[string]bool{}
	prev := absState{}
	lastLook := map[string]int{} // worker -> index of the step that gave it `el`
	for j, st := range c.Steps {
		switch st.Act {
		case "Load":
			lastLook[st.A] = j
		case "Insert":
			if !st.Ok {
				// destroyed: by a flush that ended after the worker looked the group up?
				for k := lastLook[st.A] + 1; k < j; k++ {
					if c.Steps[k].Act == "FlushEnd" && c.Steps[k].Ok && c.Steps[k].G == st.G {
						f["insert_raced_destroying_flush"] = true
					}
				}
				f["insert_refused_destroyed"] = true
			} else if st.G >= 1 && st.G <= len(prev.Grp) && prev.Grp[st.G-1].Fl != "wait" {
				f["insert_during_flush"] = true
			}
		case "Store":
			if !st.Ok {
				f["create_raced_create"] = true
				lastLook[st.A] = j
			} else {
				if prev.Maint.Pc != "idle" {
					f["maint_raced_recreation"] = true
				}
				if prev.Gmap != 0 {
					f["swap_of_destroyed_group"] = true
				}
			}
		case "FlushEnd":
			if st.Ok {
				f["flush_destroyed_group"] = true
			} else if st.V != 0 && st.St.Grp[st.G-1].Ver != st.V {
				f["flush_kept_modified_alert"] = true
			}
		case "MaintDelete":
			if st.Ok {
				f["maint_deleted_entry"] = true
			} else {
				f["maint_delete_refused"] = true
			}
		}
		prev = st.St
	}
	if !c.InOrder {
		f["out_of_order"] = true
	}
	if c.Np >= 2 {
		f["two_or_more_preemptions"] = true
	}
	return f
}

// ---------------------------------------------------------------- the test

type traceLine struct {
	Case    int          `json:"case"`
	Steps   int          `json:"steps"`
	Dev     *deviation   `json:"deviation,omitempty"`
	Drift   []string     `json:"drift,omitempty"`
	End     observation  `json:"end"`
	Settled observation  `json:"settled"`
	Verdict string       `json:"verdict"`
	Attempt []inst.Event `json:"attempts,omitempty"`
}

func TestDsched(t *testing.T) {
	res := hx.NewResult()
	defer res.Write()
	var tw *hx.TraceWriter
	if *hx.Trace != "" {
		var err error
		if tw, err = hx.NewTraceWriter(*hx.Trace); err != nil {
			t.Fatal(err)
		}
		defer tw.Close()
	}
	resolved := map[int]bool{}
	for _, f := range strings.Split(os.Getenv("VERIF_RESOLVED"), ",") {
		if n, err := strconv.Atoi(f); err == nil {
			resolved[n] = true
		}
	}
	if len(resolved) == 0 {
		resolved[2] = true
	}
	if runtime.GOMAXPROCS(0) < 8 {
		runtime.GOMAXPROCS(8) // the dispatcher starts GOMAXPROCS/2 ingestion workers (at least 2)
	}

	// tracing is enabled the way the binary does it (a tracing: section), then the gate
	// provider takes the place of the OTLP one; both outside any bubble
	tm := tracing.NewManager(promslog.NewNopLogger())
	if err := tm.ApplyConfig(tracing.TracingConfig{ClientType: tracing.TracingClientHTTP, Endpoint: "127.0.0.1:4318", Insecure: true, SamplingFraction: 1}); err != nil {
		t.Fatalf("cannot enable tracing: %v", err)
	}
	defer tm.Stop()
	otel.SetTracerProvider(gateProvider{})
	hook := verifHook
	dispatch.VerifPoint.Store(&hook)
	defer dispatch.VerifPoint.Store(nil)

	// -n > 0: a seeded sample of the input
	var pick map[int]bool
	if *hx.N > 0 {
		total := 0
		hx.Lines(*hx.In, func(int, []byte) error { total++; return nil })
		if total > *hx.N {
			pick = map[int]bool{}
			for _, k := range rand.New(rand.NewSource(*hx.Seed)).Perm(total)[:*hx.N] {
				pick[k] = true
			}
		}
	}

	err := hx.Lines(*hx.In, func(i int, line []byte) error {
		if pick != nil && !pick[i] {
			return nil
		}
		var c schedule
		if err := json.Unmarshal(line, &c); err != nil {
			return err
		}
		res.Cases++
		res.Sample(line)
		synctest.Test(t, func(t *testing.T) { runOne(t, i, line, &c, resolved, res, tw) })
		return nil
	})
	if err != nil {
		t.Fatal(err)
	}
}

func runOne(t *testing.T, i int, line []byte, c *schedule, resolved map[int]bool, res *hx.Result, tw *hx.TraceWriter) {
	s := &sched{parked: map[int64]*parkedG{}, freeG: map[int64]bool{}, workers: map[int64]*workerInfo{}, verOf: map[int64]int{}}
	cur.Store(s)
	defer cur.Store(nil)
	lg := &inst.Log{}
	in, err := inst.New(inst.Options{Name: "A", Retention: 120 * time.Hour, AlertGCInterval: 1000 * time.Hour,
		MaintenanceInterval: maintInterval, Log: lg})
	if err != nil {
		t.Fatal(err)
	}
	if err := in.Reload(cfgYAML); err != nil {
		t.Fatal(err)
	}
	time.Sleep(time.Second)
	synctest.Wait()
	r := &runner{t: t, c: c, s: s, in: in, lg: lg, res: res, wgoid: map[string]int64{}, bound: map[int]dispatch.VerifGroup{}, resolved: resolved}
	if n := in.R.Dispatcher().VerifConcurrency(); n < len(c.Steps[0].St.W) {
		res.Count("too_few_workers", 1)
	}

	last := 0
	for j := range c.Steps {
		if c.Steps[j].Act == "Recv" && c.Steps[j].V > last {
			last = c.Steps[j].V
		}
	}
	for j := range c.Steps {
		res.Steps++
		what := r.exec(j)
		if what != "" && r.dev == nil {
			// the real code cannot take the step, or takes it to another place than the model: the rest
			// of the schedule is executed as far as its steps can be taken, without comparing states
			r.dev = &deviation{Step: j, What: what}
		}
		if r.dev == nil {
			r.compare(j)
		}
	}
	var end observation
	if r.dev == nil {
		// the schedule is complete: every worker has finished, no flush, no sweep in progress
		// (one millisecond later: a resolved version ends at the instant of its submission, and
		// the API and the flush read "ends now" differently)
		time.Sleep(time.Millisecond)
		synctest.Wait()
		end = r.observe()
		s.freeRun()
		synctest.Wait()
	} else {
		// every submitted version must reach its worker's end: the workers that still hold a version
		// run to their end one after the other in submission order, then every other gate opens and
		// the versions the schedule had not submitted yet are submitted, each processed before the next
		for {
			p := s.find(func(p *parkedG) bool { _, w := s.workers[p.goid]; return w })
			if p == nil {
				break
			}
			for _, q := range s.parkedList() {
				if _, w := s.workers[q.goid]; w && q.ver < p.ver {
					p = q
				}
			}
			s.mu.Lock()
			s.freeG[p.goid] = true
			s.mu.Unlock()
			s.release(p)
			synctest.Wait()
			r.order = append(r.order, p.ver)
		}
		s.freeRun()
		synctest.Wait()
		for v := r.submitted + 1; v <= last; v++ {
			time.Sleep(time.Millisecond)
			s.mu.Lock()
			s.verOf[inst.Ms()] = v
			s.mu.Unlock()
			post(in, resolved[v])
			synctest.Wait()
			r.order = append(r.order, v)
		}
		time.Sleep(20 * time.Millisecond) // a notification in flight completes
		synctest.Wait()
		end = r.observe()
	}
	// the order in which the workers finished = the order in which the versions were handed over
	inOrder := sort.IntsAreSorted(r.order)
	if r.dev == nil && inOrder != c.InOrder {
		r.drift++
		res.Count("drift_handover_order", 1)
	}
	// the model's final version of the live group
	mfinal := 0
	if n := len(c.Steps); n > 0 {
		fs := c.Steps[n-1].St
		if fs.Gmap != 0 && !fs.Grp[fs.Gmap-1].Destroyed && !fs.Grp[fs.Gmap-1].Cancelled {
			mfinal = fs.Grp[fs.Gmap-1].Ver
		}
	}
	rfinal := 0
	if len(end.Held) == 1 {
		rfinal = end.Held[0]
	} else if len(end.Held) > 1 {
		rfinal = -2
	}
	// every aggregation group object the harness knows: a live one holding another version than the last?
	staleGroup := 0
	for _, h := range r.bound {
		hs := h.State()
		if hs.Destroyed || hs.Cancelled || !hs.Running {
			continue
		}
		for _, a := range hs.Alerts {
			if ver := r.verOfAlertTime(a.UpdatedAt); ver != last && ver != 0 {
				staleGroup = ver
			}
		}
	}
	nBefore := len(lg.Ev)
	// two more flush periods
	time.Sleep(groupWait + groupInterval + time.Second)
	synctest.Wait()
	nSecond := len(lg.Ev)
	time.Sleep(groupInterval + time.Second)
	synctest.Wait()
	settled := r.observe()

	// delivered notifications: last one of the group key; aggregation groups that notified after quiescence
	var attempts []inst.Event
	lastFiring, anyAttempt := false, false
	agsAfter := map[string]bool{}
	staleNotified := 0 // a version other than the last one in a notification after every worker had finished
	lg.Add(inst.Event{Ev: "end"})
	for k, e := range lg.Ev {
		if e.Ev != "attempt" || e.Outcome != "ok" {
			continue
		}
		attempts = append(attempts, e)
		anyAttempt = true
		lastFiring = false
		for _, a := range e.Alerts {
			if a.Status == "firing" {
				lastFiring = true
			}
		}
		if k >= nBefore {
			agsAfter[e.Ag] = true
		}
		// (after a deviation a flush may have been in progress when the gates opened: second period only)
		if (r.dev == nil && k >= nBefore) || k >= nSecond {
			for _, a := range e.Alerts {
				r.s.mu.Lock()
				ver := r.s.verOf[a.Upd]
				r.s.mu.Unlock()
				if ver != 0 && ver != last {
					staleNotified = ver
				}
			}
		}
	}
	live := 0
	for _, h := range r.bound {
		hs := h.State()
		if !hs.Destroyed && !hs.Cancelled && hs.Running && len(hs.Alerts) > 0 {
			live++
		}
	}

	// ---- the property on the real system
	type finding struct{ class, what string }
	var fs []finding
	switch {
	case end.ProvVer < 0 || end.InGroups < 0 || settled.InGroups < 0:
		res.Count("api_failed", 1)
	default:
		if end.InGroups > 1 || settled.InGroups > 1 || len(end.Held) > 1 || len(agsAfter) > 1 {
			fs = append(fs, finding{"split", fmt.Sprintf("the alert is shown in %d groups (%d after two more flush periods; Dispatcher.Groups: %d); %d aggregation groups of the one group key delivered notifications after all workers had finished (%d live group objects known)",
				end.InGroups, settled.InGroups, len(end.Held), len(agsAfter), live)})
		}
		if (end.ProvFiring && end.InGroups == 0) || (settled.ProvFiring && settled.InGroups == 0) {
			fs = append(fs, finding{"lost", fmt.Sprintf("the provider holds version %d as firing, every ingestion worker has finished, and GET /api/v2/alerts/groups shows the alert in no group (after two more flush periods: in %d groups; Dispatcher.Groups holds versions %v)",
				end.ProvVer, settled.InGroups, end.Held)})
		} else if settled.ProvFiring && settled.InGroups == 1 && !(anyAttempt && lastFiring) {
			fs = append(fs, finding{"missing", "the alert is firing and in a group, yet after two more flush periods the last delivered notification of the group does not contain it as firing"})
		}
		switch {
		case rfinal != 0 && rfinal != last:
			fs = append(fs, finding{"stale", fmt.Sprintf("last submitted version %d, the group holds version %d", last, rfinal)})
		case staleGroup != 0:
			fs = append(fs, finding{"stale", fmt.Sprintf("last submitted version %d, a live aggregation group outside the group map holds version %d", last, staleGroup)})
		case staleNotified != 0:
			fs = append(fs, finding{"stale", fmt.Sprintf("last submitted version %d, yet after every worker had finished an aggregation group notified version %d", last, staleNotified)})
		}
	}
	verdict := "ok"
	for _, f := range fs {
		class := f.class
		if class != "split" && !inOrder {
			// versions handed over out of submission order: the listed finding F3 explains the result
			// if it is the one the model computes; after a deviation the model has nothing to say
			if r.dev != nil {
				res.Count("unjudged_out_of_order_after_deviation", 1)
				continue
			}
			if rfinal == mfinal {
				res.Count("F3_"+class, 1)
				if verdict == "ok" {
					verdict = "F3"
				}
				continue
			}
		}
		verdict = class
		res.Count("violation_"+class, 1)
		what := f.what
		if r.dev != nil {
			what += fmt.Sprintf(" [the code left the model at step %d (%s %s): %s]", r.dev.Step, c.Steps[r.dev.Step].A, c.Steps[r.dev.Step].Act, r.dev.What)
		}
		if !inOrder {
			what += fmt.Sprintf(" [versions handed over out of submission order %v, but the model computes version %d: not the listed finding F3]", r.order, mfinal)
		} else {
			what += fmt.Sprintf(" [versions handed over in submission order %v]", r.order)
		}
		res.Add(hx.Mismatch{Case: i, Step: len(c.Steps), What: what, Class: class, Want: last, Got: rfinal, Replay: json.RawMessage(bytes.TrimSpace(line))})
	}
	if verdict == "F3" {
		res.Count("F3", 1)
		if res.Counters["F3"] == 1 {
			res.Add(hx.Mismatch{Case: i, Step: len(c.Steps), What: "an older version overwrote a newer one (ingestion workers ran out of order)", Class: "F3", Want: last, Got: rfinal, Replay: json.RawMessage(bytes.TrimSpace(line))})
		}
	}
	if r.dev == nil && !c.InOrder && verdict == "ok" && (!c.Latest || !c.NoOrphan) {
		res.Count("F3_not_reproduced", 1)
	}
	if inOrder {
		res.Count("in_order", 1)
	}

	// ---- conformance bookkeeping
	if r.dev != nil {
		res.Count("deviations", 1)
		if len(res.Notes) < 12 {
			res.Notes = append(res.Notes, fmt.Sprintf("case %d: the real code leaves the model at step %d (%s %s): %s", i, r.dev.Step, c.Steps[r.dev.Step].A, c.Steps[r.dev.Step].Act, r.dev.What))
		}
	} else {
		res.Count("lockstep", 1)
		res.Count("steps_compared", r.steps)
		fk := []string{}
		for k := range features(c) {
			res.Count("f_"+k, 1)
			fk = append(fk, k)
		}
		sort.Strings(fk)
		if len(fk) > 0 {
			res.Nontrivial++
		}
	}
	if r.drift > 0 {
		res.Count("schedules_with_drift", 1)
		if len(res.Notes) < 12 {
			res.Notes = append(res.Notes, fmt.Sprintf("case %d: %s", i, strings.Join(r.notes, "; ")))
		}
	}
	if s.unknown > 0 {
		res.Count("gates_by_unknown_goroutines", s.unknown)
	}
	if tw != nil {
		tw.Emit(traceLine{Case: i, Steps: r.steps, Dev: r.dev, Drift: r.notes, End: end, Settled: settled, Verdict: verdict, Attempt: attempts})
	}
	in.Stop()
	synctest.Wait()
}
