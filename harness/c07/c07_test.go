// Conformance harness for C07 (routing): every tree printed by TLC from
// spec/Routing.tla (spec/mc/Gen_Routing) is rendered as Alertmanager YAML, loaded with
// the real config.Load, built with the real dispatch.NewRoute and asked, for every label
// set of Labels!LSets, which routes it chooses; the ordered result and the inherited
// options of every route are compared with what the specification expects.  The same
// expectation is compared with the `receivers` field of GET /api/v2/alerts (real
// api/v2.API over a real provider/mem.Alerts), with the function behind
// `amtool config routes test` and, on a sample, with the aggregation groups of a real
// dispatch.Dispatcher.
package c07

import (
	"bytes"
	"context"
	"encoding/json"
	"flag"
	"fmt"
	"log/slog"
	"net/http"
	"net/http/httptest"
	"os"
	"sort"
	"strconv"
	"strings"
	"testing"
	"testing/synctest"
	"time"

	"github.com/prometheus/client_golang/prometheus"
	"github.com/prometheus/common/model"
	"github.com/prometheus/common/promslog"

	"github.com/prometheus/alertmanager/alert"
	apiv2 "github.com/prometheus/alertmanager/api/v2"
	"github.com/prometheus/alertmanager/api/v2/models"
	"github.com/prometheus/alertmanager/cli"
	"github.com/prometheus/alertmanager/config"
	"github.com/prometheus/alertmanager/dispatch"
	"github.com/prometheus/alertmanager/eventrecorder"
	"github.com/prometheus/alertmanager/marker"
	"github.com/prometheus/alertmanager/notify"
	"github.com/prometheus/alertmanager/provider/mem"

	"verif/harness/hx"
)

var (
	libFile    = flag.String("lib", "", "label sets printed by TLC (@@L line)")
	dispEvery  = flag.Int("dispatch-every", 10, "run a real Dispatcher on every n-th tree (0 = never)")
	dumpConfig = flag.String("dump-config", "", "write the rendered configurations of the first case to this file")
)

// ---------------------------------------------------------------- model values

type matcher struct {
	N  string `json:"n"`
	Op string `json:"op"`
	V  string `json:"v"`
}

type kv struct {
	N string `json:"n"`
	V string `json:"v"`
}

// deco holds the option overrides written on one node; an optional value is a list of
// length 0 or 1.
type deco struct {
	Rcv []string `json:"rcv"`
	Gbo string   `json:"gbo"`
	Gb  []string `json:"gb"`
	Gw  []int64  `json:"gw"`
	Gi  []int64  `json:"gi"`
	Ri  []int64  `json:"ri"`
	Lbl []kv     `json:"lbl"`
}

type node struct {
	Ms   []matcher `json:"ms"`
	Cont bool      `json:"cont"`
	O    deco      `json:"o"`
	Kids []*node   `json:"kids"`
}

type strmap map[string]string

func (m *strmap) UnmarshalJSON(b []byte) error {
	*m = strmap{}
	if bytes.Equal(bytes.TrimSpace(b), []byte("[]")) { // TLC prints the empty function as []
		return nil
	}
	var x map[string]string
	if err := json.Unmarshal(b, &x); err != nil {
		return err
	}
	*m = x
	return nil
}

// opts are the inherited options the specification expects for a route.
type opts struct {
	Rcv string   `json:"rcv"`
	Gb  []string `json:"gb"`
	Gba bool     `json:"gba"`
	Gw  int64    `json:"gw"`
	Gi  int64    `json:"gi"`
	Ri  int64    `json:"ri"`
	Lbl strmap   `json:"lbl"`
}

type ninfo struct {
	P   []int  `json:"p"`
	O   opts   `json:"o"`
	Key string `json:"key"`
	ID  string `json:"id"`
}

type tcase struct {
	Tree  *node              `json:"tree"`
	Nodes []ninfo            `json:"nodes"`
	Exp   map[string][][]int `json:"exp"`
}

type library struct {
	Ls map[string]map[string]string `json:"ls"`
}

func pstr(p []int) string {
	s := make([]string, len(p))
	for i, x := range p {
		s[i] = strconv.Itoa(x)
	}
	return strings.Join(s, ".")
}

func pstrs(ps [][]int) []string {
	out := make([]string, len(ps))
	for i, p := range ps {
		out[i] = "<" + pstr(p) + ">"
	}
	return out
}

// ---------------------------------------------------------------- rendering

// uniq is the receiver name given to the node at path p in the variant with one
// receiver per node.
func uniq(p []int) string {
	if len(p) == 0 {
		return "n"
	}
	return "n_" + strings.ReplaceAll(pstr(p), ".", "_")
}

func dur(s int64, units bool) string {
	if units && s != 0 {
		switch {
		case s%3600 == 0:
			return fmt.Sprintf("%dh", s/3600)
		case s%60 == 0:
			return fmt.Sprintf("%dm", s/60)
		}
	}
	return fmt.Sprintf("%ds", s)
}

func mstr(m matcher) string { return fmt.Sprintf(`%s%s"%s"`, m.N, m.Op, m.V) }

// render writes the route n (at path p) as block YAML.  variant 0: new-style `matchers:`
// in the order of the specification, options as in the tree.  variant 1: every `=`
// matcher under the deprecated `match:`, every `=~` matcher under `match_re:`, the others
// under `matchers:` in reverse order; durations in minutes/hours where possible; one
// receiver per node.
func render(w *strings.Builder, n *node, p []int, ind string, variant int, rcvs map[string]bool) {
	line := func(f string, a ...any) { fmt.Fprintf(w, ind+f+"\n", a...) }
	switch {
	case variant == 1:
		line("receiver: %s", uniq(p))
		rcvs[uniq(p)] = true
	case len(n.O.Rcv) > 0:
		line("receiver: %q", n.O.Rcv[0])
		rcvs[n.O.Rcv[0]] = true
	}
	switch n.O.Gbo {
	case "list":
		if len(n.O.Gb) == 0 {
			line("group_by: []")
		} else if variant == 0 {
			line("group_by: [%s]", strings.Join(n.O.Gb, ", "))
		} else {
			line("group_by:")
			for _, g := range n.O.Gb {
				line("- %q", g)
			}
		}
	case "all":
		line("group_by: ['...']")
	}
	if len(n.O.Gw) > 0 {
		line("group_wait: %s", dur(n.O.Gw[0], variant == 1))
	}
	if len(n.O.Gi) > 0 {
		line("group_interval: %s", dur(n.O.Gi[0], variant == 1))
	}
	if len(n.O.Ri) > 0 {
		line("repeat_interval: %s", dur(n.O.Ri[0], variant == 1))
	}
	if len(n.O.Lbl) > 0 {
		line("labels:")
		for _, l := range n.O.Lbl {
			line("  %s: %q", l.N, l.V)
		}
	}
	if n.Cont {
		line("continue: true")
	} else if variant == 1 && len(p) > 0 {
		line("continue: false")
	}
	var eq, re, rest []matcher
	for _, m := range n.Ms {
		switch {
		case variant == 1 && m.Op == "=":
			eq = append(eq, m)
		case variant == 1 && m.Op == "=~":
			re = append(re, m)
		default:
			rest = append(rest, m)
		}
	}
	if len(eq) > 0 {
		line("match:")
		for _, m := range eq {
			line("  %s: %q", m.N, m.V)
		}
	}
	if len(re) > 0 {
		line("match_re:")
		for _, m := range re {
			line("  %s: %q", m.N, m.V)
		}
	}
	if len(rest) > 0 {
		line("matchers:")
		if variant == 1 {
			for i := len(rest) - 1; i >= 0; i-- {
				line("- '%s'", mstr(rest[i]))
			}
		} else {
			for _, m := range rest {
				line("- '%s'", mstr(m))
			}
		}
	}
	if len(n.Kids) > 0 {
		line("routes:")
		for i, k := range n.Kids {
			// first key of the child on the "- " line
			var sub strings.Builder
			render(&sub, k, append(append([]int{}, p...), i+1), ind+"  ", variant, rcvs)
			s := sub.String()
			if s == "" {
				line("- {}")
				continue
			}
			w.WriteString(ind + "- " + strings.TrimPrefix(s, ind+"  "))
		}
	}
}

func renderConfig(t *node, variant int) string {
	var w strings.Builder
	rcvs := map[string]bool{}
	w.WriteString("route:\n")
	render(&w, t, nil, "  ", variant, rcvs)
	names := make([]string, 0, len(rcvs))
	for r := range rcvs {
		names = append(names, r)
	}
	sort.Strings(names)
	w.WriteString("receivers:\n")
	for _, r := range names {
		fmt.Fprintf(&w, "- name: %s\n", r)
	}
	return w.String()
}

// ---------------------------------------------------------------- real objects

type env struct {
	alerts *mem.Alerts
	api    *apiv2.API
	lib    library
	lsName map[model.Fingerprint]string
	lsets  map[string]model.LabelSet
	names  []string
}

func newEnv(lib library) (*env, error) {
	e := &env{lib: lib, lsName: map[model.Fingerprint]string{}, lsets: map[string]model.LabelSet{}}
	logger := promslog.NewNopLogger()
	al, err := mem.NewAlerts(context.Background(), 30*time.Minute, 0, nil, logger, eventrecorder.NopRecorder(), prometheus.NewRegistry(), nil)
	if err != nil {
		return nil, err
	}
	e.alerts = al
	now := time.Now()
	for name, m := range lib.Ls {
		ls := model.LabelSet{}
		for k, v := range m {
			ls[model.LabelName(k)] = model.LabelValue(v)
		}
		e.lsets[name] = ls
		e.lsName[ls.Fingerprint()] = name
		e.names = append(e.names, name)
		a := &alert.Alert{
			Alert:     model.Alert{Labels: ls, StartsAt: now, EndsAt: now.Add(1000 * time.Hour)},
			UpdatedAt: now,
		}
		if err := al.Put(context.Background(), a); err != nil {
			return nil, err
		}
	}
	sort.Strings(e.names)
	api, err := apiv2.NewAPI(al,
		func(context.Context, func(*dispatch.Route) bool, func(*alert.Alert, time.Time) bool) (dispatch.AlertGroups, map[model.Fingerprint][]string, error) {
			return nil, nil, nil
		},
		func(string, string) ([]string, bool) { return nil, false },
		nil, nil, logger, prometheus.NewRegistry())
	if err != nil {
		return nil, err
	}
	e.api = api
	return e, nil
}

type apiAlert struct {
	Labels    map[string]string `json:"labels"`
	Receivers []struct {
		Name string `json:"name"`
	} `json:"receivers"`
}

// apiReceivers asks the real GET /api/v2/alerts handler and returns, per label-set name,
// the receivers it reports.
func (e *env) apiReceivers(cfg *config.Config) (map[string][]string, error) {
	e.api.Update(cfg, func(context.Context, model.LabelSet) {})
	rec := httptest.NewRecorder()
	e.api.Handler.ServeHTTP(rec, httptest.NewRequest(http.MethodGet, "/api/v2/alerts", nil))
	if rec.Code != 200 {
		return nil, fmt.Errorf("GET /api/v2/alerts: status %d: %s", rec.Code, rec.Body.String())
	}
	var as []apiAlert
	if err := json.Unmarshal(rec.Body.Bytes(), &as); err != nil {
		return nil, err
	}
	out := map[string][]string{}
	for _, a := range as {
		ls := model.LabelSet{}
		for k, v := range a.Labels {
			ls[model.LabelName(k)] = model.LabelValue(v)
		}
		name, ok := e.lsName[ls.Fingerprint()]
		if !ok {
			return nil, fmt.Errorf("API reports an unknown alert %v", a.Labels)
		}
		rs := []string{}
		for _, r := range a.Receivers {
			rs = append(rs, r.Name)
		}
		out[name] = rs
	}
	return out, nil
}

type groupObs struct {
	RouteID  string
	Receiver string
	GroupBy  string // sorted names of the group labels
}

// dispatcherGroups runs a real Dispatcher over the provider and returns, per label-set
// name, the aggregation groups that hold the alert and the receivers Groups() reports.
func (e *env) dispatcherGroups(route *dispatch.Route) (map[string][]groupObs, map[string][]string, error) {
	logger := promslog.NewNopLogger()
	stage := notify.StageFunc(func(ctx context.Context, _ *slog.Logger, as ...*alert.Alert) (context.Context, []*alert.Alert, error) {
		return ctx, as, nil
	})
	d := dispatch.NewDispatcher(e.alerts, route, stage, marker.NewGroupMarker(),
		func(d time.Duration) time.Duration { return d }, 15*time.Minute, nil, logger,
		eventrecorder.NopRecorder(), nil, nil)
	done := make(chan struct{})
	go func() { d.Run(time.Now()); close(done) }()
	defer func() { d.Stop(); <-done }()
	ctx, cancel := context.WithTimeout(context.Background(), time.Minute)
	defer cancel()
	synctest.Wait() // the alerts held by the provider have been routed
	ags, rcv, err := d.Groups(ctx, func(*dispatch.Route) bool { return true }, func(*alert.Alert, time.Time) bool { return true })
	if err != nil {
		return nil, nil, err
	}
	groups := map[string][]groupObs{}
	for _, ag := range ags {
		by := []string{}
		for ln := range ag.Labels {
			by = append(by, string(ln))
		}
		sort.Strings(by)
		for _, a := range ag.Alerts {
			name, ok := e.lsName[a.Labels.Fingerprint()]
			if !ok {
				return nil, nil, fmt.Errorf("dispatcher holds an unknown alert %v", a.Labels)
			}
			groups[name] = append(groups[name], groupObs{RouteID: ag.RouteID, Receiver: ag.Receiver, GroupBy: strings.Join(by, ",")})
		}
	}
	rcvs := map[string][]string{}
	for fp, rs := range rcv {
		name, ok := e.lsName[fp]
		if !ok {
			return nil, nil, fmt.Errorf("dispatcher reports receivers of an unknown fingerprint %v", fp)
		}
		rcvs[name] = rs
	}
	return groups, rcvs, nil
}

func eqStr(a, b []string) bool {
	if len(a) != len(b) {
		return false
	}
	for i := range a {
		if a[i] != b[i] {
			return false
		}
	}
	return true
}

func sortedCopy(a []string) []string {
	out := append([]string{}, a...)
	sort.Strings(out)
	return out
}

// ---------------------------------------------------------------- replay

func readLib() (library, error) {
	var lib library
	b, err := os.ReadFile(*libFile)
	if err != nil {
		return lib, err
	}
	return lib, json.Unmarshal(b, &lib)
}

// index maps every built route to its path.
func index(r *dispatch.Route, p []int, out map[*dispatch.Route][]int) {
	out[r] = p
	for i, c := range r.Routes {
		index(c, append(append([]int{}, p...), i+1), out)
	}
}

func nodeAt(n *node, p []int) *node {
	for _, i := range p {
		n = n.Kids[i-1]
	}
	return n
}

func TestReplay(t *testing.T) {
	res := hx.NewResult()
	defer res.Write()
	lib, err := readLib()
	if err != nil {
		t.Fatal(err)
	}
	synctest.Test(t, func(t *testing.T) {
		e, err := newEnv(lib)
		if err != nil {
			t.Fatal(err)
		}
		defer e.alerts.Close()
		err = hx.Lines(*hx.In, func(i int, line []byte) error {
			var c tcase
			if err := json.Unmarshal(line, &c); err != nil {
				return fmt.Errorf("line %d: %v", i, err)
			}
			res.Cases++
			res.Sample(line)
			e.replayCase(i, &c, line, res)
			return nil
		})
		if err != nil {
			t.Fatal(err)
		}
	})
}

func (e *env) replayCase(i int, c *tcase, line []byte, res *hx.Result) {
	nontrivial := false
	for variant := 0; variant < 2; variant++ {
		bad := func(class, what string, want, got any) {
			res.Add(hx.Mismatch{Case: i, Step: variant, Class: class, What: what, Want: want, Got: got, Replay: json.RawMessage(line)})
		}
		yml := renderConfig(c.Tree, variant)
		if *dumpConfig != "" && i == 0 {
			f, _ := os.OpenFile(*dumpConfig, os.O_APPEND|os.O_CREATE|os.O_WRONLY, 0o644)
			fmt.Fprintf(f, "# variant %d\n%s\n", variant, yml)
			f.Close()
		}
		cfg, err := config.Load(yml)
		if err != nil {
			bad("load", "config.Load rejects the rendered tree", nil, err.Error()+"\n"+yml)
			continue
		}
		root := dispatch.NewRoute(cfg.Route, nil)
		paths := map[*dispatch.Route][]int{}
		index(root, nil, paths)
		if len(paths) != len(c.Nodes) {
			bad("load", "number of routes built", len(c.Nodes), len(paths))
			continue
		}
		byPath := map[string]*dispatch.Route{}
		for r, p := range paths {
			byPath[pstr(p)] = r
		}
		expRcv := func(ni ninfo) string {
			if variant == 1 {
				return uniq(ni.P)
			}
			return ni.O.Rcv
		}
		infoOf := map[string]ninfo{}
		ids := map[string]string{}
		// inherited options, key and id of every route
		for _, ni := range c.Nodes {
			ps := pstr(ni.P)
			infoOf[ps] = ni
			r := byPath[ps]
			if r == nil {
				bad("load", "route missing at path "+ps, nil, nil)
				continue
			}
			res.Steps++
			ro := r.RouteOpts
			if ro.Receiver != expRcv(ni) {
				bad("opts", "receiver of route <"+ps+">", expRcv(ni), ro.Receiver)
			}
			if ro.GroupByAll != ni.O.Gba {
				bad("opts", "group_by_all of route <"+ps+">", ni.O.Gba, ro.GroupByAll)
			}
			gb := []string{}
			for ln := range ro.GroupBy {
				gb = append(gb, string(ln))
			}
			sort.Strings(gb)
			if !eqStr(gb, sortedCopy(ni.O.Gb)) {
				if ni.O.Gba && ro.GroupByAll {
					// the list is not used while all labels are grouped by: not demanded
					res.Count("drift_group_by_under_all", 1)
				} else {
					bad("opts", "group_by of route <"+ps+">", sortedCopy(ni.O.Gb), gb)
				}
			}
			if ro.GroupWait != time.Duration(ni.O.Gw)*time.Second {
				bad("opts", "group_wait of route <"+ps+">", ni.O.Gw, ro.GroupWait.String())
			}
			if ro.GroupInterval != time.Duration(ni.O.Gi)*time.Second {
				bad("opts", "group_interval of route <"+ps+">", ni.O.Gi, ro.GroupInterval.String())
			}
			if ro.RepeatInterval != time.Duration(ni.O.Ri)*time.Second {
				bad("opts", "repeat_interval of route <"+ps+">", ni.O.Ri, ro.RepeatInterval.String())
			}
			gl := strmap{}
			for k, v := range ro.Labels {
				gl[string(k)] = string(v)
			}
			if len(gl) != len(ni.O.Lbl) {
				bad("opts", "labels of route <"+ps+">", ni.O.Lbl, gl)
			} else {
				for k, v := range ni.O.Lbl {
					if gl[k] != v {
						bad("opts", "labels of route <"+ps+">", ni.O.Lbl, gl)
						break
					}
				}
			}
			if r.Continue != nodeAt(c.Tree, ni.P).Cont {
				bad("load", "continue of route <"+ps+">", nodeAt(c.Tree, ni.P).Cont, r.Continue)
			}
			// Key and ID are not part of the statement of C07: a difference is drift.  (With
			// the deprecated match_re the code keeps the anchored form ^(?:re)$ of the
			// expression in the matcher, so the strings are compared in variant 0 only.)
			if variant == 1 {
				// nothing
			} else if r.Key() != ni.Key {
				res.Count("drift_key", 1)
				res.Notes = appendNote(res.Notes, fmt.Sprintf("case %d route <%s>: Key() = %s, specification %s", i, ps, r.Key(), ni.Key))
			}
			if variant == 0 && r.ID() != ni.ID {
				res.Count("drift_id", 1)
				res.Notes = appendNote(res.Notes, fmt.Sprintf("case %d route <%s>: ID() = %s, specification %s", i, ps, r.ID(), ni.ID))
			}
			if prev, dup := ids[r.ID()]; dup {
				bad("id", "Route.ID not unique", nil, fmt.Sprintf("%s for <%s> and <%s>", r.ID(), prev, ps))
			}
			ids[r.ID()] = ps
		}
		// the ordered list of routes chosen for every label set
		var apiRcv map[string][]string
		apiRcv, err = e.apiReceivers(cfg)
		if err != nil {
			bad("harness", "api", nil, err.Error())
			continue
		}
		for _, lsn := range e.names {
			want, ok := c.Exp[lsn]
			if !ok {
				bad("harness", "no expectation for "+lsn, nil, nil)
				continue
			}
			res.Steps++
			ls := e.lsets[lsn]
			got := [][]int{}
			for _, r := range root.Match(ls) {
				p, known := paths[r]
				if !known {
					bad("match", "Route.Match("+lsn+") returns a route that is not in the tree", nil, r.ID())
				}
				got = append(got, p)
			}
			if !eqStr(pstrs(want), pstrs(got)) {
				bad("match", "routes chosen for "+lsn+" "+fmt.Sprint(e.lib.Ls[lsn]), pstrs(want), pstrs(got))
			}
			wantRcv := []string{}
			for _, p := range want {
				wantRcv = append(wantRcv, expRcv(infoOf[pstr(p)]))
			}
			if len(want) > 1 || (len(want) == 1 && len(want[0]) > 1) {
				nontrivial = true
			}
			res.Count(fmt.Sprintf("result_len_%d", min(len(want), 4)), 1)
			// what GET /api/v2/alerts reports
			if g, ok := apiRcv[lsn]; !ok {
				bad("api", "GET /api/v2/alerts does not list the alert "+lsn, wantRcv, nil)
			} else if !eqStr(g, wantRcv) {
				bad("api", "receivers of "+lsn+" in GET /api/v2/alerts", wantRcv, g)
			}
			// what `amtool config routes test` prints
			mls := models.LabelSet(e.lib.Ls[lsn])
			g, aerr := cli.VerifResolveAlertReceivers(root, &mls)
			if aerr != nil {
				bad("amtool", "resolveAlertReceivers("+lsn+")", nil, aerr.Error())
			} else if !eqStr(g, wantRcv) {
				bad("amtool", "receivers of "+lsn+" by amtool config routes test", wantRcv, g)
			}
		}
		// the aggregation groups of a real dispatcher
		if *dispEvery > 0 && i%*dispEvery == 0 {
			e.checkDispatcher(c, root, byPath, infoOf, expRcv, bad, res)
		}
	}
	if nontrivial {
		res.Nontrivial++
	}
}

func appendNote(notes []string, s string) []string {
	if len(notes) < 10 {
		return append(notes, s)
	}
	return notes
}

func (e *env) checkDispatcher(c *tcase, root *dispatch.Route, byPath map[string]*dispatch.Route, infoOf map[string]ninfo, expRcv func(ninfo) string,
	bad func(class, what string, want, got any), res *hx.Result) {
	groups, rcvs, err := e.dispatcherGroups(root)
	if err != nil {
		bad("harness", "dispatcher", nil, err.Error())
		return
	}
	res.Count("dispatcher_runs", 1)
	for _, lsn := range e.names {
		want := c.Exp[lsn]
		var wantObs []groupObs
		var wantRcv []string
		for _, p := range want {
			ni := infoOf[pstr(p)]
			by := []string{}
			for ln := range e.lib.Ls[lsn] {
				if ni.O.Gba {
					by = append(by, ln)
					continue
				}
				for _, g := range ni.O.Gb {
					if g == ln {
						by = append(by, ln)
					}
				}
			}
			sort.Strings(by)
			// the route is named by the id the code gives to the route at the expected path
			wantObs = append(wantObs, groupObs{RouteID: byPath[pstr(p)].ID(), Receiver: expRcv(ni), GroupBy: strings.Join(by, ",")})
			wantRcv = append(wantRcv, expRcv(ni))
		}
		got := groups[lsn]
		// the dispatcher's groups are compared as a multiset (Groups() lists them by route index)
		key := func(g groupObs) string { return g.RouteID + "|" + g.Receiver + "|" + g.GroupBy }
		ws, gs := []string{}, []string{}
		for _, g := range wantObs {
			ws = append(ws, key(g))
		}
		for _, g := range got {
			gs = append(gs, key(g))
		}
		sort.Strings(ws)
		sort.Strings(gs)
		if !eqStr(ws, gs) {
			bad("dispatcher", "aggregation groups (route id|receiver|group labels) holding the alert "+lsn, ws, gs)
		}
		if !eqStr(sortedCopy(wantRcv), sortedCopy(rcvs[lsn])) {
			bad("dispatcher", "receivers of "+lsn+" reported by Dispatcher.Groups", sortedCopy(wantRcv), sortedCopy(rcvs[lsn]))
		}
	}
}
