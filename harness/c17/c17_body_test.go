// Time interval bodies and secret-bearing fields of the configurations TLC prints
// (SpecBody of spec/mc/MC_Config.tla), replayed by TestReplay on the real loader.
//
// Bodies: the specification gives every element of a body as TOKENS (what the text says);
// they are rendered to YAML, loaded, and the loaded timeinterval.TimeInterval values are
// compared with the values the specification computes (drift, not a verdict); the textual
// form of the loaded configuration must load back to equivalent intervals (the statement;
// judged by roundTrip like every other document) and is compared with the tokens the
// specification's marshaller prints (drift).
//
// Secrets: the specification names the field (site), its type and the shape of the value;
// the harness builds the smallest acceptable document around it (the receiver kind's base
// documents of TestSecrets) with a canary as the secret part of the value; no canary may
// occur in Config.String() nor in GET /api/v2/status (the statement).
package c17

import (
	"fmt"
	"os"
	"reflect"
	"sort"
	"strings"
	"time"

	"gopkg.in/yaml.v2"

	"github.com/prometheus/alertmanager/config"
	"github.com/prometheus/alertmanager/timeinterval"

	"verif/harness/hx"
)

// ---------------------------------------------------------------- model values

type mtimes struct {
	S [2]int `json:"s"`
	E [2]int `json:"e"`
}

type mtok struct {
	B     int  `json:"b"`
	E     int  `json:"e"`
	Rng   bool `json:"rng"`
	Names bool `json:"names"`
}

type melem struct {
	Times    []mtimes `json:"times"`
	Weekdays []mtok   `json:"weekdays"`
	Dom      []mtok   `json:"dom"`
	Months   []mtok   `json:"months"`
	Years    []mtok   `json:"years"`
	Loc      string   `json:"loc"`
}

type mbody struct {
	Name  string  `json:"name"`
	Elems []melem `json:"elems"`
}

type vrange struct {
	B int `json:"b"`
	E int `json:"e"`
}

type vtimes struct {
	S int `json:"s"`
	E int `json:"e"`
}

type velem struct {
	Times    []vtimes `json:"times"`
	Weekdays []vrange `json:"weekdays"`
	Dom      []vrange `json:"dom"`
	Months   []vrange `json:"months"`
	Years    []vrange `json:"years"`
	Loc      string   `json:"loc"`
}

type vbody struct {
	Name  string  `json:"name"`
	Elems []velem `json:"elems"`
}

type msec struct {
	Site  string `json:"site"`
	Type  string `json:"type"`
	Shape string `json:"shape"`
}

// ---------------------------------------------------------------- tokens -> text

var weekdayNames = []string{"sunday", "monday", "tuesday", "wednesday", "thursday", "friday", "saturday"}
var monthNames = []string{"", "january", "february", "march", "april", "may", "june", "july", "august", "september", "october", "november", "december"}

func bodyOf(c mcfg, name string) *mbody {
	for i := range c.Ibody {
		if c.Ibody[i].Name == name {
			return &c.Ibody[i]
		}
	}
	return nil
}

func tokText(k mtok, member func(int) string) string {
	if !k.Rng {
		return member(k.B)
	}
	return member(k.B) + ":" + member(k.E)
}

func numText(n int) string { return fmt.Sprintf("%d", n) }

func tokList(ks []mtok, member func(k mtok) func(int) string) []string {
	out := []string{}
	for _, k := range ks {
		out = append(out, tokText(k, member(k)))
	}
	return out
}

func renderElems(es []melem) []any {
	out := []any{}
	for _, e := range es {
		m := yaml.MapSlice{}
		if len(e.Times) > 0 {
			var ts []any
			for _, t := range e.Times {
				ts = append(ts, yaml.MapSlice{
					{Key: "start_time", Value: fmt.Sprintf("%02d:%02d", t.S[0], t.S[1])},
					{Key: "end_time", Value: fmt.Sprintf("%02d:%02d", t.E[0], t.E[1])}})
			}
			m = append(m, yaml.MapItem{Key: "times", Value: ts})
		}
		if len(e.Weekdays) > 0 {
			m = append(m, yaml.MapItem{Key: "weekdays", Value: tokList(e.Weekdays, func(mtok) func(int) string {
				return func(n int) string { return weekdayNames[n] }
			})})
		}
		if len(e.Dom) > 0 {
			m = append(m, yaml.MapItem{Key: "days_of_month", Value: tokList(e.Dom, func(mtok) func(int) string { return numText })})
		}
		if len(e.Months) > 0 {
			m = append(m, yaml.MapItem{Key: "months", Value: tokList(e.Months, func(k mtok) func(int) string {
				if k.Names {
					return func(n int) string { return monthNames[n] }
				}
				return numText
			})})
		}
		if len(e.Years) > 0 {
			m = append(m, yaml.MapItem{Key: "years", Value: tokList(e.Years, func(mtok) func(int) string { return numText })})
		}
		if e.Loc != "" {
			m = append(m, yaml.MapItem{Key: "location", Value: e.Loc})
		}
		out = append(out, m)
	}
	return out
}

// ---------------------------------------------------------------- probes

var probeZones = func() []*time.Location {
	out := []*time.Location{time.UTC, time.Local}
	for _, z := range []string{"Europe/Paris", "Asia/Kolkata", "America/St_Johns"} {
		if l, err := time.LoadLocation(z); err == nil {
			out = append(out, l)
		}
	}
	return out
}()

// boundaryInstants: wall-clock readings at the edges of days, months and years, in UTC,
// in the process's zone, in the zones of the model and in every zone the intervals name.
func boundaryInstants(sets ...[]timeinterval.TimeInterval) []time.Time {
	zones := append([]*time.Location{}, probeZones...)
	for _, s := range sets {
		for _, ti := range s {
			if ti.Location != nil && ti.Location.Location != nil {
				zones = append(zones, ti.Location.Location)
			}
		}
	}
	minutes := map[int]bool{0: true, 1: true, 1438: true, 1439: true, 12 * 60: true}
	for _, s := range sets {
		for _, ti := range s {
			for _, r := range ti.Times {
				for _, m := range []int{r.StartMinute - 1, r.StartMinute, r.StartMinute + 1, r.EndMinute - 1, r.EndMinute, r.EndMinute + 1} {
					if m >= 0 && m < 1440 {
						minutes[m] = true
					}
				}
			}
		}
	}
	var mins []int
	for m := range minutes {
		mins = append(mins, m)
	}
	sort.Ints(mins)
	years := map[int]bool{1969: true, 1970: true, 1971: true, 2023: true, 2024: true, 2025: true, 2030: true, 2031: true}
	for _, s := range sets {
		for _, ti := range s {
			for _, r := range ti.Years {
				for _, y := range []int{r.Begin - 1, r.Begin, r.End, r.End + 1} {
					if y > 1900 && y < 2200 {
						years[y] = true
					}
				}
			}
		}
	}
	var out []time.Time
	for y := range years {
		for mo := 1; mo <= 12; mo++ {
			last := time.Date(y, time.Month(mo)+1, 0, 12, 0, 0, 0, time.UTC).Day()
			for _, d := range []int{1, 2, 3, 14, 15, 16, 26, 27, 28, 29, 30, 31} {
				if d > last {
					continue
				}
				for _, m := range mins {
					for _, z := range zones {
						out = append(out, time.Date(y, time.Month(mo), d, m/60, m%60, 30, 0, z))
					}
				}
			}
		}
	}
	return out
}

// ---------------------------------------------------------------- bodies: conformance of the loaded values and of the printed tokens

type bodyState struct {
	res       *hx.Result
	api       *statusAPI
	sitesSeen map[string]msec
	plainOK   map[string]bool
	tmplOK    map[string]bool
	na        map[string]bool
}

func newBodyState(res *hx.Result) *bodyState {
	return &bodyState{res: res, sitesSeen: map[string]msec{}, plainOK: map[string]bool{}, tmplOK: map[string]bool{}, na: map[string]bool{}}
}

func rangesOf[T any](xs []T, f func(T) timeinterval.InclusiveRange) []vrange {
	out := []vrange{}
	for _, x := range xs {
		r := f(x)
		out = append(out, vrange{r.Begin, r.End})
	}
	return out
}

func valuesOf(tis []timeinterval.TimeInterval) []velem {
	out := []velem{}
	for _, ti := range tis {
		v := velem{Times: []vtimes{}}
		for _, r := range ti.Times {
			v.Times = append(v.Times, vtimes{r.StartMinute, r.EndMinute})
		}
		v.Weekdays = rangesOf(ti.Weekdays, func(r timeinterval.WeekdayRange) timeinterval.InclusiveRange { return r.InclusiveRange })
		v.Dom = rangesOf(ti.DaysOfMonth, func(r timeinterval.DayOfMonthRange) timeinterval.InclusiveRange { return r.InclusiveRange })
		v.Months = rangesOf(ti.Months, func(r timeinterval.MonthRange) timeinterval.InclusiveRange { return r.InclusiveRange })
		v.Years = rangesOf(ti.Years, func(r timeinterval.YearRange) timeinterval.InclusiveRange { return r.InclusiveRange })
		if ti.Location != nil && ti.Location.Location != nil {
			v.Loc = ti.Location.String()
		}
		out = append(out, v)
	}
	return out
}

func normV(es []velem) []velem {
	out := []velem{}
	for _, e := range es {
		if e.Times == nil {
			e.Times = []vtimes{}
		}
		for _, p := range []*[]vrange{&e.Weekdays, &e.Dom, &e.Months, &e.Years} {
			if *p == nil {
				*p = []vrange{}
			}
		}
		out = append(out, e)
	}
	return out
}

// generic: YAML text -> generic value (maps with string keys), for comparisons of textual forms
func generic(text string) (any, error) {
	var v any
	if err := yaml.Unmarshal([]byte(text), &v); err != nil {
		return nil, err
	}
	var conv func(v any) any
	conv = func(v any) any {
		switch x := v.(type) {
		case map[any]any:
			o := map[string]any{}
			for k, e := range x {
				o[fmt.Sprint(k)] = conv(e)
			}
			return o
		case []any:
			o := make([]any, len(x))
			for i, e := range x {
				o[i] = conv(e)
			}
			return o
		}
		return v
	}
	return conv(v), nil
}

func (bs *bodyState) checkBodies(k *checker, i int, g gcase, cfg *config.Config, text string) {
	loaded := intervalsOf(cfg)
	rep := map[string]any{"origin": "tlc:body", "yaml": text}
	for bi, want := range g.Bvals {
		tis, ok := loaded[want.Name]
		if !ok {
			continue
		}
		bs.res.Count("bodies_compared", 1)
		got := valuesOf(tis)
		if !reflect.DeepEqual(normV(want.Elems), got) {
			k.bad(i, "drift_interval_values", fmt.Sprintf("time interval %q: the loader stores other values than the specification computes from the text", want.Name), want.Elems, got, rep)
			continue
		}
		// the tokens the specification's marshaller prints vs the real textual form
		if bi < len(g.Bprinted) {
			wt, err1 := yaml.Marshal(renderElems(g.Bprinted[bi].Elems))
			var gt []byte
			var err2 error
			if p, _ := safely(func() { gt, err2 = yaml.Marshal(tis) }); p != nil {
				err2 = fmt.Errorf("panic: %v", p)
			}
			if err1 != nil || err2 != nil {
				k.bad(i, "drift_interval_printed", fmt.Sprintf("time interval %q cannot be marshalled: %v %v", want.Name, err1, err2), nil, nil, rep)
				continue
			}
			wg, _ := generic(string(wt))
			gg, _ := generic(string(gt))
			if !reflect.DeepEqual(wg, gg) {
				k.bad(i, "drift_interval_printed", fmt.Sprintf("time interval %q: the textual form differs from what the specification's marshaller prints", want.Name), string(wt), string(gt), rep)
			} else {
				bs.res.Count("bodies_printed_conform", 1)
			}
		}
	}
	for _, b := range g.Cfg.Ibody {
		for _, e := range b.Elems {
			for _, t := range e.Times {
				if t.E == [2]int{24, 0} {
					bs.res.Count("shape:end_of_day", 1)
				}
				if t.S == [2]int{0, 0} {
					bs.res.Count("shape:start_of_day", 1)
				}
			}
			for _, d := range e.Dom {
				if d.B < 0 || d.E < 0 {
					bs.res.Count("shape:negative_day", 1)
				}
			}
			for _, m := range e.Months {
				if m.Names {
					bs.res.Count("shape:month_by_name", 1)
				} else {
					bs.res.Count("shape:month_by_number", 1)
				}
			}
			if len(e.Weekdays) > 0 {
				bs.res.Count("shape:weekdays", 1)
			}
			if len(e.Years) > 0 {
				bs.res.Count("shape:years", 1)
			}
			if e.Loc != "" {
				bs.res.Count("shape:location:"+e.Loc, 1)
			}
		}
		break // every body of a document is the same
	}
}

// ---------------------------------------------------------------- secrets

type placedSecret struct {
	sec      msec
	idx      int      // index in cfg.sec
	tokens   []string // canaries inside the value (none for the shapes without a value)
	recvName string   // receiver that holds it ("" = a top-level section)
	kind     string
	rel      []string // path below the receiver's integration / below the top-level section
	printed  string   // what the specification expects the textual form to show
}

type secretPlan struct {
	text    string
	applied []placedSecret
}

func isURLType(t string) bool { return strings.Contains(t, "URL") }

func secretValue(s msec, toks []string) any {
	switch s.Shape {
	case "empty":
		return ""
	case "templated":
		if isURLType(s.Type) {
			return "https://hooks.example.com/{{ .GroupLabels.team }}/" + toks[0] + "?key=" + toks[1]
		}
		return "{{ .CommonLabels.team }}-" + toks[0]
	}
	if isURLType(s.Type) {
		return "https://" + toks[0] + ".example.com/hook/" + toks[1] + "?k=" + toks[1]
	}
	return toks[0]
}

const secretFilePath = "/etc/am/secret-file"

// assemble builds the document: the routing part of the abstract configuration, the
// sections and receivers in `tops` / `recvs`.
func assemble(base yaml.MapSlice, tops doc, recvs []any) string {
	var out yaml.MapSlice
	for _, it := range base {
		if it.Key == "receivers" {
			it.Value = append(append([]any{}, it.Value.([]any)...), recvs...)
		}
		out = append(out, it)
	}
	var keys []string
	for k := range tops {
		keys = append(keys, k)
	}
	sort.Strings(keys)
	for _, k := range keys {
		out = append(out, yaml.MapItem{Key: k, Value: tops[k]})
	}
	b, err := yaml.Marshal(out)
	if err != nil {
		panic(err)
	}
	return string(b)
}

func acceptable(text string) bool {
	r := safeLoad(text)
	return r.err == nil && r.panicV == nil && !r.timeout
}

// plan places the secret-bearing fields of the case one after the other; for each the
// first alternative (base documents of its holder) that keeps the document acceptable is
// taken; a field no alternative accepts in this shape is left out and counted.
func (bs *bodyState) plan(g gcase) *secretPlan {
	base := renderDoc(g.Cfg)
	tops := doc{}
	var recvs []any
	p := &secretPlan{}
	for idx, s := range g.Cfg.Sec {
		bs.sitesSeen[s.Site] = s
		path := strings.Split(s.Site, ".")
		toks := []string{fmt.Sprintf("canary17x%dz", 2*idx+1), fmt.Sprintf("canary17x%dz", 2*idx+2)}
		setAt := func(root doc, rel []string) {
			if s.Shape == "file" {
				fr := append(append([]string{}, rel[:len(rel)-1]...), rel[len(rel)-1]+"_file")
				setPath(root, fr, secretFilePath)
			} else {
				setPath(root, rel, secretValue(s, toks))
			}
			companions(root, rel)
		}
		placed := placedSecret{sec: s, idx: idx, printed: "", kind: path[0]}
		if idx < len(g.Secp) {
			placed.printed = g.Secp[idx]
		}
		if s.Shape == "plain" || s.Shape == "templated" {
			placed.tokens = toks
			if !isURLType(s.Type) {
				placed.tokens = toks[:1]
			}
		}
		done := false
		switch {
		case path[0] == "receivers" && len(path) > 4:
			kind := path[2]
			rel := path[4:]
			placed.kind, placed.rel, placed.recvName = kind, rel, fmt.Sprintf("s%d", idx+1)
			for _, b := range kindBases[kind] {
				body := deepCopy(b).(doc)
				setAt(body, rel)
				try := append(append([]any{}, recvs...), doc{"name": placed.recvName, kind: []any{body}})
				if acceptable(assemble(base, tops, try)) {
					recvs, done = try, true
					break
				}
			}
		case path[0] == "global" || path[0] == "tracing" || path[0] == "event_recorder":
			rel := path[1:]
			placed.rel = rel
			var alts []doc
			cur, _ := tops[path[0]].(doc)
			switch {
			case cur != nil:
				alts = []doc{cur}
			case path[0] == "global":
				alts = []doc{{"smtp_smarthost": "smtp.example.com:587", "smtp_from": "am@example.com", "wechat_api_corp_id": "corp"}}
			case path[0] == "tracing":
				alts = []doc{{"endpoint": "otel.example.com:4317"}}
			default:
				alts = []doc{{}, {"webhook_outputs": []any{doc{"url": "https://events.example.com/in"}}}}
			}
			for _, a := range alts {
				sect := deepCopy(a).(doc)
				setAt(sect, rel)
				if ko, ok := sect["kafka_outputs"].([]any); ok && ko[0] != nil {
					ko[0].(doc)["brokers"] = []any{"kafka.example.com:9092"}
					ko[0].(doc)["topic"] = "events"
				}
				try := deepCopy(tops).(doc)
				try[path[0]] = sect
				if acceptable(assemble(base, try, recvs)) {
					tops, done = try, true
					break
				}
			}
		}
		key := s.Type + ":" + s.Shape
		if !done {
			bs.res.Count("sec_na:"+key, 1)
			bs.na[s.Site+" "+s.Shape] = true
			continue
		}
		bs.res.Count("sec_ok:"+key, 1)
		if s.Shape == "plain" {
			bs.plainOK[s.Site] = true
		}
		if s.Shape == "templated" {
			bs.tmplOK[s.Site] = true
		}
		p.applied = append(p.applied, placed)
	}
	// integrations that take a secret from `global` when it is set there
	if _, ok := tops["global"]; ok && len(p.applied) > 0 {
		heirs := doc{"name": "heirs", "email_configs": []any{doc{"to": "a@example.com"}}}
		if !acceptable(assemble(base, tops, append(append([]any{}, recvs...), heirs))) {
			delete(heirs, "email_configs")
		}
		for _, h := range globalHeirs {
			heirs[h.kind] = []any{deepCopy(h.body)}
			if !acceptable(assemble(base, tops, append(append([]any{}, recvs...), heirs))) {
				delete(heirs, h.kind)
			}
		}
		if len(heirs) > 1 {
			recvs = append(recvs, heirs)
		}
	}
	p.text = assemble(base, tops, recvs)
	return p
}

// lookup navigates the generic form of a textual configuration to the place of a secret.
func lookup(root any, ps placedSecret) (val any, present bool) {
	cur := root
	path := ps.rel
	top, _ := root.(map[string]any)
	if ps.recvName != "" {
		cur = nil
		rs, _ := top["receivers"].([]any)
		for _, r := range rs {
			if m, ok := r.(map[string]any); ok && m["name"] == ps.recvName {
				if l, ok := m[ps.kind].([]any); ok && len(l) > 0 {
					cur = l[0]
				}
			}
		}
	} else {
		cur = top[ps.kind]
	}
	for _, k := range path {
		switch c := cur.(type) {
		case map[string]any:
			if k == "{}" {
				k = "X-Canary"
			}
			v, ok := c[k]
			if !ok {
				return nil, false
			}
			cur = v
		case []any:
			if len(c) == 0 {
				return nil, false
			}
			cur = c[0]
		default:
			return nil, false
		}
	}
	return cur, true
}

// checkSecrets: the statement (no canary in the textual form nor in the status API) and the
// specification's expectation of what is shown instead (drift).
func (bs *bodyState) checkSecrets(k *checker, i int, cfg *config.Config, plan *secretPlan, text string) {
	if bs.api == nil {
		api, err := newStatusAPI()
		if err != nil {
			panic(err)
		}
		bs.api = api
	}
	sc := secretCase{Origin: "tlc:secrets", YAML: text, Secrets: map[string]string{}}
	for _, ps := range plan.applied {
		for _, t := range ps.tokens {
			sc.Secrets[t] = ps.sec.Site + " (" + ps.sec.Type + ", " + ps.sec.Shape + ")"
		}
	}
	var s string
	if p, _ := safely(func() { s = cfg.String() }); p != nil {
		k.bad(i, "string_panics", fmt.Sprintf("Config.String() panics: %v", p), nil, nil, sc)
		return
	}
	code, body := bs.api.get(cfg, "/api/v2/status")
	if code != 200 {
		k.bad(i, "status_api", fmt.Sprintf("GET /api/v2/status returns %d", code), 200, body, sc)
		return
	}
	var loaded []string
	collectSecrets(reflect.ValueOf(cfg), &loaded, map[uintptr]bool{})
	inSecretFields := strings.ToLower(strings.Join(loaded, "\n"))
	ls, lbody := strings.ToLower(s), strings.ToLower(body)
	gen, gerr := generic(s)
	nMasked := 0
	for _, ps := range plan.applied {
		if ps.printed == "<secret>" {
			nMasked++
		}
	}
	for _, ps := range plan.applied {
		k.res.Steps++
		leaked := false
		for _, tok := range ps.tokens {
			if !strings.Contains(inSecretFields, tok) {
				bs.res.Count("canary_not_in_a_secret_typed_field", 1)
			}
			for _, o := range []struct{ where, text string }{{"Config.String()", ls}, {"GET /api/v2/status", lbody}} {
				if strings.Contains(o.text, tok) {
					leaked = true
					k.bad(i, "secret_leak", fmt.Sprintf("secret %s (%s, %s value; canary %s) occurs in %s", ps.sec.Site, ps.sec.Type, ps.sec.Shape, tok, o.where),
						"<secret>", excerpt(o.text, tok), sc)
					break
				}
			}
			if leaked {
				break
			}
		}
		if leaked {
			continue
		}
		bs.res.Count("secrets_checked:"+ps.sec.Shape, 1)
		if gerr != nil {
			continue
		}
		v, present := lookup(gen, ps)
		switch ps.printed {
		case "<secret>":
			if (!present || v == nil) && strings.Count(s, "<secret>") >= nMasked {
				// the loader keeps the value in another field (http_config.bearer_token becomes
				// authorization.credentials), where it is masked
				bs.res.Count("secrets_masked_elsewhere", 1)
			} else if !present || v != "<secret>" {
				k.bad(i, "drift_secret_printed", fmt.Sprintf("secret %s (%s, %s): the specification expects <secret> in the textual form", ps.sec.Site, ps.sec.Type, ps.sec.Shape), "<secret>", v, sc)
			} else {
				bs.res.Count("secrets_masked", 1)
			}
		case "omitted":
			if present && v == "<secret>" {
				// the holder inherits the secret from `global` (or from another field): masked
				bs.res.Count("secrets_masked_inherited", 1)
			} else if present && v != nil && v != "" {
				k.bad(i, "drift_secret_printed", fmt.Sprintf("secret %s (%s, %s): the specification expects the field to be absent from the textual form", ps.sec.Site, ps.sec.Type, ps.sec.Shape), "omitted", v, sc)
			} else {
				bs.res.Count("secrets_omitted", 1)
			}
		}
	}
}

// hasEmptySecretPointer: some secret kept behind a pointer is a non-nil pointer to "".
func hasEmptySecretPointer(v reflect.Value, seen map[uintptr]bool) bool {
	if !v.IsValid() {
		return false
	}
	switch v.Kind() {
	case reflect.Ptr:
		if v.IsNil() {
			return false
		}
		if isSecretType(v.Type().Elem()) && v.Type().Elem().Kind() == reflect.String {
			return v.Elem().String() == ""
		}
		if seen[v.Pointer()] {
			return false
		}
		seen[v.Pointer()] = true
		return hasEmptySecretPointer(v.Elem(), seen)
	case reflect.Interface:
		return !v.IsNil() && hasEmptySecretPointer(v.Elem(), seen)
	case reflect.Slice, reflect.Array:
		for i := 0; i < v.Len(); i++ {
			if hasEmptySecretPointer(v.Index(i), seen) {
				return true
			}
		}
	case reflect.Map:
		it := v.MapRange()
		for it.Next() {
			if hasEmptySecretPointer(it.Value(), seen) {
				return true
			}
		}
	case reflect.Struct:
		if strings.HasPrefix(v.Type().PkgPath(), "github.com/prometheus/") || v.Type().PkgPath() == "" {
			for i := 0; i < v.NumField(); i++ {
				if v.Type().Field(i).IsExported() && hasEmptySecretPointer(v.Field(i), seen) {
					return true
				}
			}
		}
	}
	return false
}

// finish: the list of secret-bearing fields of the specification against the fields
// reflection finds in the tree under test.
func (bs *bodyState) finish() {
	// only a replay of the exhaustive generator has seen every site in every shape
	if len(bs.sitesSeen) == 0 || os.Getenv("C17_ALL_SITES") == "" {
		return
	}
	bs.res.Count("spec_sites", len(bs.sitesSeen))
	bs.res.Count("spec_sites_plain_accepted", len(bs.plainOK))
	real := map[string]secretSite{}
	for _, s := range secretSites(reflect.TypeOf(config.Config{})) {
		real[s.ID] = s
		if _, ok := bs.sitesSeen[s.ID]; !ok {
			bs.res.Count("sites_unknown_to_spec", 1)
			bs.res.Notes = append(bs.res.Notes, "UNCOVERED secret-typed field that spec/mc/Sites_Config.tla does not list: "+s.ID+" "+s.Type)
		}
	}
	for id, s := range bs.sitesSeen {
		if isURLType(s.Type) {
			bs.res.Count("url_sites", 1)
			if bs.tmplOK[id] {
				bs.res.Count("url_sites_templated_accepted", 1)
			}
		}
		r, ok := real[id]
		switch {
		case !ok:
			bs.res.Count("sites_not_secret_typed", 1)
			bs.res.Notes = append(bs.res.Notes, "field listed as secret by the specification is not secret-typed in this tree (still given canaries): "+id)
		case r.Type != s.Type:
			bs.res.Notes = append(bs.res.Notes, fmt.Sprintf("type of %s: specification %s, tree %s", id, s.Type, r.Type))
		}
		if !bs.plainOK[id] {
			why := unreachable(secretPath{Path: strings.Split(id, ".")})
			if why == "" {
				bs.res.Count("sites_plain_never_accepted", 1)
				bs.res.Notes = append(bs.res.Notes, "UNCOVERED secret site: no acceptable document with a plain value: "+id)
			} else {
				bs.res.Count("sites_unreachable", 1)
			}
		}
	}
	var nas []string
	for k := range bs.na {
		nas = append(nas, k)
	}
	sort.Strings(nas)
	if len(nas) > 40 {
		nas = append(nas[:40], fmt.Sprintf("... (%d in all)", len(bs.na)))
	}
	if len(nas) > 0 {
		bs.res.Notes = append(bs.res.Notes, "site/shape combinations no document of the harness makes acceptable: "+strings.Join(nas, "; "))
	}
}
