// Conformance harness for C17 (config loading is total, accepts only well-formed
// configurations, never leaks secrets).
//
//	TestReplay       abstract configurations printed by TLC from spec/Config.tla (Gen_Config)
//	                 are rendered to YAML and given to the REAL config.Load: accept iff the
//	                 specification's Accepts; whatever is accepted is inspected (the loaded
//	                 struct and the dispatch.NewRoute tree, not the input) for every clause of
//	                 the statement; Config.String() must load back to an equivalent routing
//	                 tree, inhibit rules and time intervals.
//	TestSecrets      every secret-bearing field (found by reflection over config.Config) of
//	                 every receiver kind, of global, tracing and event_recorder is populated
//	                 with a unique canary; no canary may occur in Config.String() nor in the
//	                 body of GET /api/v2/status (real api/v2 handler, in process).
//	TestCoordinator  reload sequences printed by TLC are replayed on the real
//	                 config.Coordinator (files in t.TempDir(), a subscriber failing on demand).
//	TestRobust       structural corruptions of valid documents: error or well-formed, no
//	                 panic, returns within a generous timeout.
package c17

import (
	"bytes"
	"context"
	"crypto/md5"
	"encoding/binary"
	"encoding/json"
	"errors"
	"fmt"
	"math/rand"
	"net/http"
	"net/http/httptest"
	"os"
	"path/filepath"
	"reflect"
	"runtime/debug"
	"sort"
	"strings"
	"testing"
	"time"
	_ "time/tzdata"

	"github.com/prometheus/client_golang/prometheus"
	"github.com/prometheus/common/model"
	"github.com/prometheus/common/promslog"
	"gopkg.in/yaml.v2"

	apiv2 "github.com/prometheus/alertmanager/api/v2"
	"github.com/prometheus/alertmanager/config"
	"github.com/prometheus/alertmanager/dispatch"
	"github.com/prometheus/alertmanager/inhibit"
	"github.com/prometheus/alertmanager/timeinterval"

	"verif/harness/hx"
)

// ---------------------------------------------------------------- model values

type mroute struct {
	P      int      `json:"p"`
	Recv   string   `json:"recv"`
	Gbset  bool     `json:"gbset"`
	Gb     []string `json:"gb"`
	Gi     int64    `json:"gi"`
	Ri     int64    `json:"ri"`
	M      string   `json:"m"`
	Cont   bool     `json:"cont"`
	Mute   []string `json:"mute"`
	Active []string `json:"active"`
}

type mcfg struct {
	Routes []mroute `json:"routes"`
	Recv   []string `json:"recv"`
	Mti    []string `json:"mti"`
	Ti     []string `json:"ti"`
	Ibody  []mbody  `json:"ibody"` // time interval bodies as tokens (c17_body_test.go)
	Sec    []msec   `json:"sec"`   // secret-bearing fields the document sets (c17_body_test.go)
}

type meff struct {
	Recv  string   `json:"recv"`
	Gi    int64    `json:"gi"`
	Ri    int64    `json:"ri"`
	Gb    []string `json:"gb"`
	Gball bool     `json:"gball"`
}

type gcase struct {
	Cfg     mcfg            `json:"cfg"`
	Defect  string          `json:"defect"`
	Valid   bool            `json:"valid"`
	Wf      bool            `json:"wf"`
	Clauses map[string]bool `json:"clauses"`
	Rt      bool            `json:"rt"`  // the specification's printed form loads back to an equivalent tree
	Gap     bool            `json:"gap"` // EmptyGroupByGap of Config.tla
	GapSec  bool            `json:"gapsec"` // EmptySecretPointerGap of Config.tla
	Eff     []meff          `json:"eff"`
	// time interval bodies: the values the loader must store, the tokens the textual form
	// must show; secrets: what the textual form shows in their place ("<secret>", "omitted")
	Bvals    []vbody  `json:"bvals"`
	Bprinted []mbody  `json:"bprinted"`
	Secp     []string `json:"secp"`
}

// ---------------------------------------------------------------- rendering

var intervalBodies = map[string]any{
	"t1": []any{yaml.MapSlice{
		{Key: "weekdays", Value: []string{"monday:friday"}},
		{Key: "times", Value: []any{yaml.MapSlice{{Key: "start_time", Value: "09:00"}, {Key: "end_time", Value: "17:00"}}}},
	}},
	"t2": []any{yaml.MapSlice{
		{Key: "days_of_month", Value: []string{"-3:-1", "1"}},
		{Key: "months", Value: []string{"january", "june:august"}},
		{Key: "years", Value: []string{"2024:2030"}},
		{Key: "location", Value: "Europe/Paris"},
	}, yaml.MapSlice{
		{Key: "weekdays", Value: []string{"saturday", "sunday"}},
	}},
}

var inhibitRules = []any{
	yaml.MapSlice{
		{Key: "name", Value: "i1"},
		{Key: "source_matchers", Value: []string{`severity="critical"`}},
		{Key: "target_matchers", Value: []string{`severity=~"warning|info"`, `team!="x"`}},
		{Key: "equal", Value: []string{"alertname", "cluster"}},
	},
	yaml.MapSlice{
		{Key: "source_match", Value: map[string]string{"severity": "critical"}},
		{Key: "target_match_re", Value: map[string]string{"severity": "warn.*"}},
		{Key: "equal", Value: []string{"instance"}},
	},
}

func secs(n int64) string { return fmt.Sprintf("%ds", n) }

func renderNode(c mcfg, i int) yaml.MapSlice {
	n := c.Routes[i]
	var m yaml.MapSlice
	if n.Recv != "" {
		m = append(m, yaml.MapItem{Key: "receiver", Value: n.Recv})
	}
	if n.Gbset {
		gb := n.Gb
		if gb == nil {
			gb = []string{}
		}
		m = append(m, yaml.MapItem{Key: "group_by", Value: gb})
	}
	if n.Gi >= 0 {
		m = append(m, yaml.MapItem{Key: "group_interval", Value: secs(n.Gi)})
	}
	if n.Ri >= 0 {
		m = append(m, yaml.MapItem{Key: "repeat_interval", Value: secs(n.Ri)})
	}
	switch n.M {
	case "match":
		m = append(m, yaml.MapItem{Key: "match", Value: map[string]string{"team": fmt.Sprintf("x%d", i)}})
	case "match_re":
		m = append(m, yaml.MapItem{Key: "match_re", Value: map[string]string{"team": fmt.Sprintf("x%d|y.+", i)}})
	case "matchers":
		m = append(m, yaml.MapItem{Key: "matchers", Value: []string{fmt.Sprintf(`team="x%d"`, i), `env!~"dev.*"`}})
	}
	if n.Cont {
		m = append(m, yaml.MapItem{Key: "continue", Value: true})
	}
	if len(n.Mute) > 0 {
		m = append(m, yaml.MapItem{Key: "mute_time_intervals", Value: n.Mute})
	}
	if len(n.Active) > 0 {
		m = append(m, yaml.MapItem{Key: "active_time_intervals", Value: n.Active})
	}
	var kids []any
	for j := range c.Routes {
		if c.Routes[j].P == i+1 {
			kids = append(kids, renderNode(c, j))
		}
	}
	if len(kids) > 0 {
		m = append(m, yaml.MapItem{Key: "routes", Value: kids})
	}
	return m
}

func renderIntervals(c mcfg, names []string) []any {
	var out []any
	for _, n := range names {
		it := yaml.MapSlice{{Key: "name", Value: n}}
		if b := bodyOf(c, n); b != nil {
			// the body the specification gives this interval (tokens -> text)
			it = append(it, yaml.MapItem{Key: "time_intervals", Value: renderElems(b.Elems)})
		} else if b, ok := intervalBodies[n]; ok {
			it = append(it, yaml.MapItem{Key: "time_intervals", Value: b})
		}
		out = append(out, it)
	}
	return out
}

// render turns an abstract configuration into YAML text.
func render(c mcfg) string {
	b, err := yaml.Marshal(renderDoc(c))
	if err != nil {
		panic(err)
	}
	return string(b)
}

// renderDoc: the document without the secret-bearing fields of c.Sec (planSecrets adds them).
func renderDoc(c mcfg) yaml.MapSlice {
	doc := yaml.MapSlice{{Key: "route", Value: renderNode(c, 0)}}
	var rs []any
	for i, r := range c.Recv {
		it := yaml.MapSlice{{Key: "name", Value: r}}
		if i%2 == 1 {
			it = append(it, yaml.MapItem{Key: "webhook_configs", Value: []any{yaml.MapSlice{{Key: "url_file", Value: "/etc/am/url"}}}})
		}
		rs = append(rs, it)
	}
	doc = append(doc, yaml.MapItem{Key: "receivers", Value: rs})
	if len(c.Mti) > 0 {
		doc = append(doc, yaml.MapItem{Key: "mute_time_intervals", Value: renderIntervals(c, c.Mti)})
	}
	if len(c.Ti) > 0 {
		doc = append(doc, yaml.MapItem{Key: "time_intervals", Value: renderIntervals(c, c.Ti)})
	}
	doc = append(doc, yaml.MapItem{Key: "inhibit_rules", Value: inhibitRules})
	return doc
}

// ---------------------------------------------------------------- calling the real loader

type loadResult struct {
	cfg     *config.Config
	err     error
	panicV  any
	stack   string
	timeout bool
	dur     time.Duration
}

const loadTimeout = 30 * time.Second

// safeLoad calls the real config.Load; a panic is recovered and reported, a call that does
// not return within loadTimeout is reported as a hang (its goroutine is abandoned).
func safeLoad(text string) loadResult {
	ch := make(chan loadResult, 1)
	t0 := time.Now()
	go func() {
		var r loadResult
		defer func() {
			if p := recover(); p != nil {
				r.panicV = p
				r.stack = string(debug.Stack())
			}
			r.dur = time.Since(t0)
			ch <- r
		}()
		r.cfg, r.err = config.Load(text)
	}()
	select {
	case r := <-ch:
		return r
	case <-time.After(loadTimeout):
		return loadResult{timeout: true, dur: loadTimeout}
	}
}

func safely(f func()) (p any, stack string) {
	defer func() {
		if r := recover(); r != nil {
			p = r
			stack = string(debug.Stack())
		}
	}()
	f()
	return nil, ""
}

// ---------------------------------------------------------------- the statement, on the loaded struct

func dupIn(xs []string) bool {
	seen := map[string]bool{}
	for _, x := range xs {
		if seen[x] {
			return true
		}
		seen[x] = true
	}
	return false
}

func walkRoutes(r *config.Route, f func(r *config.Route, depth int)) {
	var rec func(r *config.Route, d int)
	rec = func(r *config.Route, d int) {
		f(r, d)
		if r == nil {
			return
		}
		for _, c := range r.Routes {
			rec(c, d+1)
		}
	}
	rec(r, 0)
}

// brokenClauses evaluates every well-formedness clause of the statement on the loaded
// configuration and on the routing tree the dispatcher builds from it, and returns the
// clauses that do not hold.
func brokenClauses(c *config.Config) []string {
	bad := map[string]bool{}
	if c.Route == nil {
		return []string{"root_receiver"}
	}
	root := c.Route
	if root.Receiver == "" {
		bad["root_receiver"] = true
	}
	if len(root.Match) > 0 || len(root.MatchRE) > 0 || len(root.Matchers) > 0 {
		bad["root_no_matchers"] = true
	}
	if len(root.MuteTimeIntervals) > 0 {
		bad["root_no_mute"] = true
	}
	if len(root.ActiveTimeIntervals) > 0 {
		bad["root_no_active"] = true
	}
	var rnames, inames []string
	rset, iset := map[string]bool{}, map[string]bool{}
	for _, r := range c.Receivers {
		rnames = append(rnames, r.Name)
		rset[r.Name] = true
	}
	for _, t := range c.MuteTimeIntervals {
		inames = append(inames, t.Name)
		iset[t.Name] = true
	}
	for _, t := range c.TimeIntervals {
		inames = append(inames, t.Name)
		iset[t.Name] = true
	}
	if dupIn(rnames) {
		bad["unique_receivers"] = true
	}
	if dupIn(inames) {
		bad["unique_intervals"] = true
	}
	walkRoutes(root, func(r *config.Route, _ int) {
		if r == nil {
			bad["route_is_null"] = true
			return
		}
		if r.Receiver != "" && !rset[r.Receiver] {
			bad["receivers_defined"] = true
		}
		for _, t := range append(append([]string{}, r.MuteTimeIntervals...), r.ActiveTimeIntervals...) {
			if !iset[t] {
				bad["intervals_defined"] = true
			}
		}
		var labels []string
		for _, l := range r.GroupBy {
			labels = append(labels, string(l))
		}
		var strLabels []string
		strAll := false
		for _, l := range r.GroupByStr {
			if l == "..." {
				strAll = true
			} else {
				strLabels = append(strLabels, l)
			}
		}
		if dupIn(labels) || dupIn(strLabels) {
			bad["group_by_no_dup"] = true
		}
		if (r.GroupByAll && len(r.GroupBy) > 0) || (strAll && len(strLabels) > 0) {
			bad["group_by_no_mix"] = true
		}
		if (r.GroupInterval != nil && time.Duration(*r.GroupInterval) == 0) || (r.RepeatInterval != nil && time.Duration(*r.RepeatInterval) == 0) {
			bad["timers_non_zero"] = true
		}
	})
	if !bad["route_is_null"] {
		// the tree the dispatcher runs with
		if p, _ := safely(func() {
			dispatch.NewRoute(root, nil).Walk(func(r *dispatch.Route) {
				if r.RouteOpts.Receiver == "" || !rset[r.RouteOpts.Receiver] {
					bad["receivers_defined"] = true
				}
				if r.RouteOpts.GroupInterval == 0 || r.RouteOpts.RepeatInterval == 0 {
					bad["timers_non_zero"] = true
				}
				for _, t := range append(append([]string{}, r.RouteOpts.MuteTimeIntervals...), r.RouteOpts.ActiveTimeIntervals...) {
					if !iset[t] {
						bad["intervals_defined"] = true
					}
				}
			})
		}); p != nil {
			bad[fmt.Sprintf("route_tree_panics(%v)", p)] = true
		}
	}
	var out []string
	for k := range bad {
		out = append(out, k)
	}
	sort.Strings(out)
	return out
}

// ---------------------------------------------------------------- equivalence of routing trees, rules, intervals

type nodeView struct {
	Path     string
	Matchers []string
	Receiver string
	GroupBy  []string
	GroupAll bool
	Wait     time.Duration
	Interval time.Duration
	Repeat   time.Duration
	Continue bool
	Mute     []string
	Active   []string
	Labels   string
	Kids     int
}

func strs(xs []string) []string {
	if xs == nil {
		return []string{}
	}
	return xs
}

func treeView(root *config.Route) []nodeView {
	var out []nodeView
	var rec func(r *dispatch.Route, path string)
	rec = func(r *dispatch.Route, path string) {
		v := nodeView{Path: path, Receiver: r.RouteOpts.Receiver, GroupAll: r.RouteOpts.GroupByAll,
			Wait: r.RouteOpts.GroupWait, Interval: r.RouteOpts.GroupInterval, Repeat: r.RouteOpts.RepeatInterval,
			Continue: r.Continue, Mute: strs(r.RouteOpts.MuteTimeIntervals), Active: strs(r.RouteOpts.ActiveTimeIntervals),
			Labels: r.RouteOpts.Labels.String(), Kids: len(r.Routes), Matchers: []string{}, GroupBy: []string{}}
		for _, m := range r.Matchers {
			v.Matchers = append(v.Matchers, m.String())
		}
		sort.Strings(v.Matchers)
		for l := range r.RouteOpts.GroupBy {
			v.GroupBy = append(v.GroupBy, string(l))
		}
		sort.Strings(v.GroupBy)
		if v.GroupAll { // with the wildcard in force the label set is irrelevant
			v.GroupBy = []string{}
		}
		out = append(out, v)
		for i, c := range r.Routes {
			rec(c, fmt.Sprintf("%s/%d", path, i))
		}
	}
	rec(dispatch.NewRoute(root, nil), "")
	return out
}

type ruleView struct {
	Name   string
	Source []string
	Target []string
	Equal  []string
}

func rulesView(c *config.Config) []ruleView {
	out := []ruleView{}
	for _, cr := range c.InhibitRules {
		r := inhibit.NewInhibitRule(cr)
		v := ruleView{Name: r.Name, Source: []string{}, Target: []string{}, Equal: []string{}}
		for _, m := range r.SourceMatchers {
			v.Source = append(v.Source, m.String())
		}
		for _, m := range r.TargetMatchers {
			v.Target = append(v.Target, m.String())
		}
		for l := range r.Equal {
			v.Equal = append(v.Equal, string(l))
		}
		sort.Strings(v.Source)
		sort.Strings(v.Target)
		sort.Strings(v.Equal)
		out = append(out, v)
	}
	return out
}

func intervalsOf(c *config.Config) map[string][]timeinterval.TimeInterval {
	out := map[string][]timeinterval.TimeInterval{}
	for _, t := range c.MuteTimeIntervals {
		out[t.Name] = t.TimeIntervals
	}
	for _, t := range c.TimeIntervals {
		out[t.Name] = t.TimeIntervals
	}
	return out
}

var probeInstants = func() []time.Time {
	var out []time.Time
	t0 := time.Date(2024, 1, 1, 0, 0, 0, 0, time.UTC)
	for h := 0; h < 24*7*3; h++ { // three weeks, hourly, off the hour
		out = append(out, t0.Add(time.Duration(h)*time.Hour+17*time.Minute))
	}
	for d := 0; d < 365*12; d += 5 { // twelve years, every fifth day
		out = append(out, t0.AddDate(-3, 0, d).Add(11*time.Hour+3*time.Minute))
	}
	return out
}()

func containsAny(tis []timeinterval.TimeInterval, t time.Time) bool {
	for _, ti := range tis {
		if ti.ContainsTime(t) {
			return true
		}
	}
	return false
}

// intervalsDiffer returns a description of a semantic difference between two named
// interval sets (a distinguishing instant), or "".
func intervalsDiffer(a, b map[string][]timeinterval.TimeInterval) string {
	var names []string
	for n := range a {
		names = append(names, n)
	}
	sort.Strings(names)
	for _, n := range names {
		if _, ok := b[n]; !ok {
			return fmt.Sprintf("time interval %q missing after the round trip", n)
		}
	}
	for n := range b {
		if _, ok := a[n]; !ok {
			return fmt.Sprintf("time interval %q appears only after the round trip", n)
		}
	}
	for _, n := range names {
		if reflect.DeepEqual(a[n], b[n]) {
			continue
		}
		for _, t := range probeInstants {
			if x, y := containsAny(a[n], t), containsAny(b[n], t); x != y {
				return fmt.Sprintf("time interval %q contains %s: %v before, %v after the round trip", n, t.Format(time.RFC3339), x, y)
			}
		}
		// boundary instants: first/last minutes of days, first/last days of months and years,
		// as wall-clock readings of every zone the intervals name
		for _, t := range boundaryInstants(a[n], b[n]) {
			if x, y := containsAny(a[n], t), containsAny(b[n], t); x != y {
				return fmt.Sprintf("time interval %q contains %s: %v before, %v after the round trip", n, t.Format(time.RFC3339), x, y)
			}
		}
	}
	return ""
}

// features of a loaded configuration that name the class of a round-trip defect
type cfgFeatures struct {
	emptyGroupBy    bool // some non-root... any node with an explicit empty group_by list
	emptyNameRecv   bool
	emptyNameIntv   bool
	emptyRegexp     bool
	emptyIntvField  bool
	nullIntegration bool
	zeroRange       bool // a time/day/month range with the zero value (what a YAML null element decodes to)
	emptyPtrSecret  bool // a secret kept behind a pointer is given as the empty string (non-nil pointer to "")
}

func featuresOf(c *config.Config) cfgFeatures {
	var f cfgFeatures
	f.emptyPtrSecret = hasEmptySecretPointer(reflect.ValueOf(c), map[uintptr]bool{})
	walkRoutes(c.Route, func(r *config.Route, d int) {
		if r == nil {
			return
		}
		if r.GroupByStr != nil && len(r.GroupByStr) == 0 {
			f.emptyGroupBy = true
		}
		for _, re := range r.MatchRE {
			if re.Original == "" {
				f.emptyRegexp = true
			}
		}
	})
	for _, r := range c.InhibitRules {
		for _, re := range r.SourceMatchRE {
			if re.Original == "" {
				f.emptyRegexp = true
			}
		}
		for _, re := range r.TargetMatchRE {
			if re.Original == "" {
				f.emptyRegexp = true
			}
		}
	}
	for _, r := range c.Receivers {
		if r.Name == "" {
			f.emptyNameRecv = true
		}
		rv := reflect.ValueOf(r)
		for i := 0; i < rv.NumField(); i++ {
			if fv := rv.Field(i); fv.Kind() == reflect.Slice && fv.Type().Elem().Kind() == reflect.Ptr {
				for j := 0; j < fv.Len(); j++ {
					if fv.Index(j).IsNil() {
						f.nullIntegration = true
					}
				}
			}
		}
	}
	chk := func(name string, tis []timeinterval.TimeInterval) {
		if name == "" {
			f.emptyNameIntv = true
		}
		for _, ti := range tis {
			for _, r := range ti.Times {
				if r.StartMinute == 0 && r.EndMinute == 0 {
					f.zeroRange = true
				}
			}
			for _, r := range ti.DaysOfMonth {
				if r.Begin == 0 || r.End == 0 {
					f.zeroRange = true
				}
			}
			for _, r := range ti.Months {
				if r.Begin == 0 || r.End == 0 {
					f.zeroRange = true
				}
			}
			if (ti.Times != nil && len(ti.Times) == 0) || (ti.Weekdays != nil && len(ti.Weekdays) == 0) ||
				(ti.DaysOfMonth != nil && len(ti.DaysOfMonth) == 0) || (ti.Months != nil && len(ti.Months) == 0) ||
				(ti.Years != nil && len(ti.Years) == 0) {
				f.emptyIntvField = true
			}
		}
	}
	for _, t := range c.MuteTimeIntervals {
		chk(t.Name, t.TimeIntervals)
	}
	for _, t := range c.TimeIntervals {
		chk(t.Name, t.TimeIntervals)
	}
	return f
}

// treesDifferOnlyByEmptyGroupBy: the two views differ only in the grouping of nodes at or
// below a node whose configuration has an explicit empty group_by list.
func treesDifferOnlyByEmptyGroupBy(c *config.Config, a, b []nodeView) bool {
	if len(a) != len(b) {
		return false
	}
	tainted := map[string]bool{}
	var rec func(r *config.Route, path string, t bool)
	rec = func(r *config.Route, path string, t bool) {
		if r.GroupByStr != nil && len(r.GroupByStr) == 0 {
			t = true
		}
		tainted[path] = t
		for i, k := range r.Routes {
			rec(k, fmt.Sprintf("%s/%d", path, i), t)
		}
	}
	rec(c.Route, "", false)
	some := false
	for i := range a {
		x, y := a[i], b[i]
		if tainted[x.Path] {
			if !reflect.DeepEqual(x.GroupBy, y.GroupBy) || x.GroupAll != y.GroupAll {
				some = true
			}
			x.GroupBy, y.GroupBy, x.GroupAll, y.GroupAll = nil, nil, false, false
		}
		if !reflect.DeepEqual(x, y) {
			return false
		}
	}
	return some
}

// roundTrip checks that c.String() loads back to an equivalent routing tree, inhibit rules
// and time intervals.  Returns (class, description) of the first difference, or "", "".
func roundTrip(c *config.Config, text string) (class, what string, got any) {
	var s string
	if p, st := safely(func() { s = c.String() }); p != nil {
		return "string_panics", fmt.Sprintf("Config.String() panics: %v", p), st
	}
	if strings.HasPrefix(s, "<error creating config string") {
		return "string_error", "Config.String() reports an error", s
	}
	f := featuresOf(c)
	r := safeLoad(s)
	switch {
	case r.timeout:
		return "rt_hang", "loading Config.String() does not return", s
	case r.panicV != nil:
		return "rt_panic", fmt.Sprintf("loading Config.String() panics: %v", r.panicV), s
	case r.err != nil:
		cl := "rt_load_error"
		msg := r.err.Error()
		switch {
		case f.emptyRegexp && strings.Contains(msg, "invalid regexp value"):
			cl = "rt_empty_regexp"
		case f.emptyPtrSecret && strings.Contains(msg, "set either inline or in a file"):
			// `token: ''` is a non-nil pointer to the empty secret: accepted as "configured",
			// printed as null, read back as "not configured"
			cl = "rt_empty_secret_pointer"
		case (f.emptyNameRecv || f.emptyNameIntv || f.zeroRange || f.nullIntegration) && docFeaturesOf(text).nullElem:
			// a YAML null list element was decoded to a zero value without validation
			cl = "rt_null_element"
		}
		return cl, "Config.String() of an accepted configuration is rejected by Load: " + msg, s
	}
	var a, b []nodeView
	if p, _ := safely(func() { a, b = treeView(c.Route), treeView(r.cfg.Route) }); p != nil {
		return "route_tree_panics", fmt.Sprintf("dispatch.NewRoute panics: %v", p), s
	}
	if !reflect.DeepEqual(a, b) {
		cl := "rt_tree"
		if f.emptyGroupBy && treesDifferOnlyByEmptyGroupBy(c, a, b) {
			cl = "rt_empty_group_by"
		}
		for i := range a {
			if i >= len(b) || !reflect.DeepEqual(a[i], b[i]) {
				var bi any
				if i < len(b) {
					bi = b[i]
				}
				return cl, fmt.Sprintf("routing tree differs after the round trip at node %q: before %+v after %+v", a[i].Path, a[i], bi), s
			}
		}
		return cl, "routing tree has more nodes after the round trip", s
	}
	if ra, rb := rulesView(c), rulesView(r.cfg); !reflect.DeepEqual(ra, rb) {
		return "rt_inhibit", fmt.Sprintf("inhibit rules differ after the round trip: before %+v after %+v", ra, rb), s
	}
	if d := intervalsDiffer(intervalsOf(c), intervalsOf(r.cfg)); d != "" {
		cl := "rt_intervals"
		if f.emptyIntvField {
			cl = "rt_empty_interval_field"
		}
		return cl, d, s
	}
	return "", "", nil
}

// ---------------------------------------------------------------- TestReplay

type mtree struct {
	idx  int
	kids []*mtree
}

func buildTree(c mcfg, i int) *mtree {
	t := &mtree{idx: i}
	for j := range c.Routes {
		if c.Routes[j].P == i+1 {
			t.kids = append(t.kids, buildTree(c, j))
		}
	}
	return t
}

func sortedCopy(xs []string) []string {
	out := append([]string{}, xs...)
	sort.Strings(out)
	return out
}

// compareEff compares the options of every node of the real routing tree with what the
// specification expects (inheritance of receiver, timers, group_by).
func compareEff(g gcase, c *config.Config) string {
	var msg string
	var rec func(m *mtree, r *dispatch.Route)
	rec = func(m *mtree, r *dispatch.Route) {
		if msg != "" {
			return
		}
		if len(m.kids) != len(r.Routes) {
			msg = fmt.Sprintf("node %d: %d children in the model, %d in the real tree", m.idx+1, len(m.kids), len(r.Routes))
			return
		}
		e := g.Eff[m.idx]
		var gb []string
		for l := range r.RouteOpts.GroupBy {
			gb = append(gb, string(l))
		}
		sort.Strings(gb)
		o := r.RouteOpts
		// with group_by: ['...'] the inherited label set is irrelevant
		gbEq := e.Gball && o.GroupByAll || (e.Gball == o.GroupByAll && fmt.Sprint(sortedCopy(e.Gb)) == fmt.Sprint(gb))
		if o.Receiver != e.Recv || int64(o.GroupInterval/time.Second) != e.Gi || int64(o.RepeatInterval/time.Second) != e.Ri || !gbEq {
			msg = fmt.Sprintf("node %d: specification expects %+v, real tree has receiver=%s group_interval=%s repeat_interval=%s group_by=%v all=%v",
				m.idx+1, e, o.Receiver, o.GroupInterval, o.RepeatInterval, gb, o.GroupByAll)
			return
		}
		for i := range m.kids {
			rec(m.kids[i], r.Routes[i])
		}
	}
	rec(buildTree(g.Cfg, 0), dispatch.NewRoute(c.Route, nil))
	return msg
}

type checker struct {
	res *hx.Result
}

func (k *checker) bad(i int, class, what string, want, got any, replay any) {
	k.res.Add(hx.Mismatch{Case: i, What: what, Want: want, Got: got, Class: class, Replay: hx.J(replay)})
	k.res.Count("class:"+class, 1)
}

// judge applies the oracle of C17 to one document: the outcome of the real loader, the
// clauses of the statement on whatever is accepted, the round trip.  expect: +1 the
// specification accepts, -1 it rejects, 0 unknown (structural corruption).
func (k *checker) judge(i int, origin, text string, expect int, hasSecrets bool) (accepted bool, cfg *config.Config) {
	accepted, cfg, _ = k.judgeRT(i, origin, text, expect, hasSecrets, "")
	return accepted, cfg
}

// judgeRT: expectRT names the round-trip class the specification predicts for this
// document ("" = equivalent).  Returns the class observed.
func (k *checker) judgeRT(i int, origin, text string, expect int, hasSecrets bool, expectRT string) (accepted bool, cfg *config.Config, rtClass string) {
	rep := map[string]any{"origin": origin, "yaml": text}
	r := safeLoad(text)
	switch {
	case r.timeout:
		k.bad(i, "hang", "config.Load did not return within "+loadTimeout.String(), "error or configuration", "no return", rep)
		return false, nil, ""
	case r.panicV != nil:
		class := "panic"
		df := docFeaturesOf(text)
		switch {
		case df.nullRoute && strings.Contains(r.stack, "config.checkReceiver"):
			class = "panic_null_route"
		case df.nullGlobalHTTP && strings.Contains(r.stack, "config.(*Config).UnmarshalYAML"):
			class = "panic_null_http_config"
		}
		rep["stack"] = firstLines(r.stack, 30)
		k.bad(i, class, fmt.Sprintf("config.Load panics: %v", r.panicV), "error or configuration", fmt.Sprint(r.panicV), rep)
		return false, nil, ""
	case r.err != nil:
		k.res.Count("rejected", 1)
		if expect > 0 {
			k.bad(i, "drift_rejects_valid", "config.Load rejects a configuration the specification accepts: "+r.err.Error(), "accept", r.err.Error(), rep)
		}
		return false, nil, ""
	}
	k.res.Count("accepted", 1)
	if r.dur > 5*time.Second {
		k.res.Count("slow_loads", 1)
	}
	broken := brokenClauses(r.cfg)
	for _, cl := range broken {
		k.bad(i, "accept_illformed:"+cl, "config.Load accepts a configuration that violates the clause "+cl, "error", "accepted", rep)
	}
	if expect < 0 && len(broken) == 0 {
		k.bad(i, "drift_accepts_rejected", "config.Load accepts a configuration the specification rejects (all clauses of the statement hold on the loaded struct)", "error", "accepted", rep)
	}
	if len(broken) > 0 {
		return true, r.cfg, ""
	}
	if !hasSecrets {
		if p, _ := safely(func() { hasSecrets = strings.Contains(r.cfg.String(), "<secret>") }); p != nil {
			hasSecrets = false
		}
	}
	if hasSecrets {
		// the round-trip clause of the statement is about configurations without secrets
		k.res.Count("roundtrip_skipped_has_secrets", 1)
		return true, r.cfg, ""
	}
	class, what, got := roundTrip(r.cfg, text)
	switch {
	case class == "":
		k.res.Count("roundtrips_ok", 1)
		if expectRT != "" {
			k.res.Count("gap_not_reproduced:"+expectRT, 1)
		}
	default:
		if class == expectRT {
			k.res.Count("gap_reproduced:"+class, 1)
		}
		k.bad(i, class, what, "equivalent configuration", got, rep)
	}
	return true, r.cfg, class
}

func firstLines(s string, n int) string {
	ls := strings.Split(s, "\n")
	if len(ls) > n {
		ls = ls[:n]
	}
	return strings.Join(ls, "\n")
}

// features of the YAML text that name the class of a defect
type docFeatures struct {
	nullElem       bool // some list has a null element
	nullRoute      bool // a `routes:` list has a null element
	nullGlobalHTTP bool // global.http_config is given as null
}

func docFeaturesOf(text string) (f docFeatures) {
	var d any
	if p, _ := safely(func() {
		if err := yaml.Unmarshal([]byte(text), &d); err != nil {
			d = nil
		}
	}); p != nil || d == nil {
		return f
	}
	if top, ok := d.(map[any]any); ok {
		if g, ok := top["global"].(map[any]any); ok {
			if v, present := g["http_config"]; present && v == nil {
				f.nullGlobalHTTP = true
			}
		}
	}
	var rec func(v any)
	rec = func(v any) {
		switch x := v.(type) {
		case map[any]any:
			for k, e := range x {
				if l, ok := e.([]any); ok {
					for _, it := range l {
						if it == nil {
							f.nullElem = true
							if ks, ok := k.(string); ok && ks == "routes" {
								f.nullRoute = true
							}
						}
					}
				}
				rec(e)
			}
		case []any:
			for _, e := range x {
				rec(e)
			}
		}
	}
	rec(d)
	return f
}

func TestReplay(t *testing.T) {
	res := hx.NewResult()
	defer res.Write()
	k := &checker{res: res}
	defects := map[string]bool{}
	bs := newBodyState(res)
	defer bs.finish()
	err := hx.Lines(*hx.In, func(i int, line []byte) error {
		var g gcase
		if err := json.Unmarshal(line, &g); err != nil {
			return fmt.Errorf("line %d: %v", i, err)
		}
		res.Cases++
		res.Steps++
		if i%997 == 0 {
			res.Sample(line)
		}
		text := render(g.Cfg)
		expect := -1
		if g.Valid {
			expect = 1
		}
		res.Count("defect:"+g.Defect, 1)
		if g.Valid != (g.Defect == "none") {
			return fmt.Errorf("line %d: inconsistent case: valid=%v defect=%s", i, g.Valid, g.Defect)
		}
		expectRT := ""
		if g.Valid && !g.Rt {
			switch {
			case g.Gap:
				expectRT = "rt_empty_group_by"
			case g.GapSec:
				expectRT = "rt_empty_secret_pointer"
			default:
				return fmt.Errorf("line %d: the specification predicts a round-trip difference outside its known gaps", i)
			}
		}
		var plan *secretPlan
		if len(g.Cfg.Sec) > 0 {
			// the secret-bearing fields the specification sets; whether the loader accepts a
			// shape at a site is not a claim of the specification (expect = 0)
			plan = bs.plan(g)
			text, expect = plan.text, 0
			if len(plan.applied) == 0 {
				return nil
			}
		}
		ok, cfg, _ := k.judgeRT(i, "tlc:"+g.Defect, text, expect, false, expectRT)
		if ok && cfg != nil {
			if plan != nil {
				bs.checkSecrets(k, i, cfg, plan, text)
			}
			if len(g.Cfg.Ibody) > 0 {
				bs.checkBodies(k, i, g, cfg, text)
			}
		}
		if !g.Valid {
			if !ok {
				res.Count("defects_rejected", 1)
				if !defects[g.Defect] {
					defects[g.Defect] = true
					res.Nontrivial++
				}
			}
			return nil
		}
		if ok && cfg != nil && len(brokenClauses(cfg)) == 0 {
			if msg := compareEff(g, cfg); msg != "" {
				k.bad(i, "drift_options", "options of the real routing tree differ from the specification: "+msg, nil, nil, map[string]any{"yaml": text})
			} else {
				res.Count("trees_conform", 1)
			}
			for _, n := range g.Cfg.Routes {
				if len(n.Gb) == 2 && n.Gb[0] == "..." && n.Gb[1] == "..." {
					res.Count("repeated_wildcard_accepted", 1)
					break
				}
			}
		}
		return nil
	})
	if err != nil {
		t.Fatal(err)
	}
}

// TestFiles applies the oracle to the valid fixture files of the repository (configurations
// with integrations, global defaults) named by $C17_TESTDATA.
func TestFiles(t *testing.T) {
	res := hx.NewResult()
	defer res.Write()
	k := &checker{res: res}
	files, _ := filepath.Glob(filepath.Join(os.Getenv("C17_TESTDATA"), "*.yml"))
	sort.Strings(files)
	for i, f := range files {
		b, err := os.ReadFile(f)
		if err != nil {
			continue
		}
		res.Cases++
		ok, cfg := k.judge(i, "file:"+filepath.Base(f), string(b), 0, false)
		if ok && cfg != nil {
			res.Nontrivial++
		}
	}
}

// ---------------------------------------------------------------- TestSecrets

func isSecretType(t reflect.Type) bool {
	if !strings.Contains(t.Name(), "Secret") {
		return false
	}
	p := t.PkgPath()
	return strings.HasSuffix(p, "prometheus/common/config") || strings.Contains(p, "prometheus/alertmanager/config")
}

type secretPath struct {
	Path []string // yaml keys; "[]" = first element of a list, "{}" = entry "k" of a map
	Type reflect.Type
}

func (p secretPath) String() string { return strings.Join(p.Path, ".") }

// secretPaths finds every secret-bearing field reachable from t through yaml-tagged fields.
func secretPaths(t reflect.Type) (out []secretPath, odd []string) {
	stack := map[reflect.Type]bool{}
	var walk func(t reflect.Type, path []string)
	walk = func(t reflect.Type, path []string) {
		if isSecretType(t) {
			out = append(out, secretPath{Path: append([]string{}, path...), Type: t})
			return
		}
		switch t.Kind() {
		case reflect.Ptr:
			walk(t.Elem(), path)
		case reflect.Slice, reflect.Array:
			walk(t.Elem(), append(path, "[]"))
		case reflect.Map:
			walk(t.Elem(), append(path, "{}"))
		case reflect.Struct:
			if stack[t] {
				return
			}
			stack[t] = true
			defer delete(stack, t)
			for i := 0; i < t.NumField(); i++ {
				f := t.Field(i)
				tag, ok := f.Tag.Lookup("yaml")
				if !ok || !f.IsExported() {
					continue
				}
				name := strings.Split(tag, ",")[0]
				if name == "-" {
					continue
				}
				if strings.Contains(tag, ",inline") {
					walk(f.Type, path)
					continue
				}
				if name == "" {
					name = strings.ToLower(f.Name)
				}
				if strings.HasSuffix(name, "_file") && isSecretType(f.Type) {
					odd = append(odd, strings.Join(append(path, name), "."))
				}
				walk(f.Type, append(path, name))
			}
		}
	}
	walk(t, nil)
	return out, odd
}

type doc = map[string]any

func deepCopy(v any) any {
	switch x := v.(type) {
	case doc:
		o := doc{}
		for k, e := range x {
			o[k] = deepCopy(e)
		}
		return o
	case []any:
		o := make([]any, len(x))
		for i, e := range x {
			o[i] = deepCopy(e)
		}
		return o
	}
	return v
}

// setPath sets the value at a secretPath-style path below root, creating containers.
func setPath(root doc, path []string, val any) {
	var cur any = root
	for i, k := range path {
		last := i == len(path)-1
		var next any
		if !last {
			switch path[i+1] {
			case "[]":
				next = []any{nil}
			default:
				next = doc{}
			}
		}
		switch c := cur.(type) {
		case doc:
			key := k
			if k == "{}" {
				key = "X-Canary"
			}
			if last {
				c[key] = val
				return
			}
			if ex, ok := c[key]; ok && ex != nil {
				cur = ex
			} else {
				c[key] = next
				cur = next
			}
		case []any:
			// k == "[]"
			if last {
				c[0] = val
				return
			}
			if c[0] == nil {
				c[0] = next
			}
			cur = c[0]
		}
	}
}

// companions: non-secret settings a secret needs next to it to be acceptable.
func companions(root doc, p []string) {
	parent := func(n int) []string { return append([]string{}, p[:len(p)-n]...) }
	last := p[len(p)-1]
	switch {
	case last == "secret_key" && len(p) >= 2 && p[len(p)-2] == "sigv4":
		setPath(root, append(parent(1), "access_key"), "AKIAEXAMPLE")
	case last == "key" && len(p) >= 2 && strings.HasSuffix(p[len(p)-2], "tls_config"):
		setPath(root, append(parent(1), "cert"), "-----BEGIN CERTIFICATE-----\nMIIB\n-----END CERTIFICATE-----\n")
	case last == "password" && len(p) >= 2 && p[len(p)-2] == "basic_auth":
		setPath(root, append(parent(1), "username"), "user")
	case last == "client_secret" || last == "client_certificate_key":
		setPath(root, append(parent(1), "client_id"), "client")
		setPath(root, append(parent(1), "token_url"), "https://auth.example.com/token")
		if last == "client_certificate_key" {
			setPath(root, append(parent(1), "grant_type"), "urn:ietf:params:oauth:grant-type:jwt-bearer")
			setPath(root, append(parent(1), "client_certificate_key_id"), "kid")
			setPath(root, append(parent(1), "signature_algorithm"), "RS256")
			setPath(root, append(parent(1), "iss"), "iss")
			setPath(root, append(parent(1), "audience"), "aud")
		}
	}
	for i := range p {
		if p[i] == "proxy_connect_header" {
			setPath(root, append(append([]string{}, p[:i]...), "proxy_url"), "http://proxy.example.com:3128")
		}
		if p[i] == "oauth2" && last != "client_secret" && last != "client_certificate_key" {
			base := append([]string{}, p[:i+1]...)
			setPath(root, append(append([]string{}, base...), "client_id"), "client")
			setPath(root, append(append([]string{}, base...), "client_secret_file"), "/etc/am/oauth-secret")
			setPath(root, append(append([]string{}, base...), "token_url"), "https://auth.example.com/token")
		}
	}
}

func canaryFor(n int) string { return fmt.Sprintf("canary17q%dz", n) }

func canaryValue(t reflect.Type, tok string) any {
	if t.Kind() == reflect.String && !strings.Contains(t.Name(), "URL") {
		return tok
	}
	return "https://" + tok + ".example.com/hook/" + tok + "?k=" + tok
}

// receiver kinds: for each `<kind>_configs` field, alternative minimal bodies without secrets.
var kindBases = map[string][]doc{
	"discord_configs":    {{"webhook_url_file": "/etc/am/f"}, {}},
	"email_configs":      {{"to": "a@example.com", "from": "b@example.com", "smarthost": "smtp.example.com:587"}},
	"incidentio_configs": {{"url": "https://incident.example.com/x", "alert_source_token_file": "/etc/am/f"}, {"url": "https://incident.example.com/x"}},
	"pagerduty_configs":  {{"routing_key_file": "/etc/am/f"}, {"service_key_file": "/etc/am/f"}, {}},
	"slack_configs":      {{"api_url_file": "/etc/am/f", "channel": "#c"}, {"channel": "#c"}},
	"webhook_configs":    {{"url_file": "/etc/am/f"}, {}},
	"opsgenie_configs":   {{"api_key_file": "/etc/am/f"}, {}},
	"wechat_configs":     {{"api_secret_file": "/etc/am/f", "corp_id": "corp"}, {"corp_id": "corp"}},
	"pushover_configs":   {{"user_key_file": "/etc/am/f", "token_file": "/etc/am/g"}, {"user_key_file": "/etc/am/f"}, {"token_file": "/etc/am/g"}, {}},
	"victorops_configs":  {{"api_key_file": "/etc/am/f", "routing_key": "rk"}, {"routing_key": "rk"}},
	"sns_configs":        {{"topic_arn": "arn:aws:sns:us-east-1:123456789012:t", "sigv4": doc{"region": "us-east-1"}}},
	"telegram_configs":   {{"bot_token_file": "/etc/am/f", "chat_id": 7}, {"chat_id": 7}},
	"webex_configs":      {{"room_id": "room", "http_config": doc{"authorization": doc{"credentials_file": "/etc/am/f"}}}, {"room_id": "room"}},
	"msteams_configs":    {{"webhook_url_file": "/etc/am/f"}, {}},
	"msteamsv2_configs":  {{"webhook_url_file": "/etc/am/f"}, {}},
	"jira_configs":       {{"project": "P", "issue_type": "Bug", "api_url": "https://jira.example.com"}},
	"rocketchat_configs": {{"token_file": "/etc/am/f", "token_id_file": "/etc/am/g"}, {"token_file": "/etc/am/f"}, {"token_id_file": "/etc/am/g"}, {}},
	"mattermost_configs": {{"webhook_url_file": "/etc/am/f"}, {}},
}

// a configuration in which every integration that can inherit a secret from `global` does so
func globalBase() doc {
	return doc{
		"global": doc{"smtp_smarthost": "smtp.example.com:587", "smtp_from": "am@example.com", "wechat_api_corp_id": "corp"},
		"route":  doc{"receiver": "r"},
		"receivers": []any{doc{"name": "r",
			"email_configs": []any{doc{"to": "a@example.com"}},
		}},
	}
}

// integrations that take a secret from global when it is set there (added when acceptable)
var globalHeirs = []struct {
	kind string
	body doc
}{
	{"slack_configs", doc{"channel": "#c"}},
	{"opsgenie_configs", doc{}},
	{"wechat_configs", doc{}},
	{"victorops_configs", doc{"routing_key": "rk"}},
	{"telegram_configs", doc{"chat_id": 7}},
	{"rocketchat_configs", doc{}},
	{"mattermost_configs", doc{}},
}

func receiverDoc(kind string, body doc) doc {
	return doc{
		"route":     doc{"receiver": "r"},
		"receivers": []any{doc{"name": "r", kind: []any{deepCopy(body)}}},
	}
}

func marshalDoc(d doc) string {
	b, err := yaml.Marshal(d)
	if err != nil {
		panic(err)
	}
	return string(b)
}

// collectSecrets returns the values of all secret-typed fields of a loaded configuration.
func collectSecrets(v reflect.Value, out *[]string, seen map[uintptr]bool) {
	if !v.IsValid() {
		return
	}
	t := v.Type()
	if isSecretType(t) {
		switch t.Kind() {
		case reflect.String:
			*out = append(*out, v.String())
		case reflect.Struct:
			if m := v.Addr().MethodByName("String"); v.CanAddr() && m.IsValid() {
				// SecretURL embeds *url.URL: String() of the URL is the clear text
				if u := v.FieldByName("URL"); u.IsValid() && !u.IsNil() {
					*out = append(*out, fmt.Sprint(u.Interface()))
				}
			} else if u := v.FieldByName("URL"); u.IsValid() && !u.IsNil() {
				*out = append(*out, fmt.Sprint(u.Interface()))
			}
		}
		return
	}
	switch v.Kind() {
	case reflect.Ptr:
		if v.IsNil() || seen[v.Pointer()] {
			return
		}
		seen[v.Pointer()] = true
		collectSecrets(v.Elem(), out, seen)
	case reflect.Interface:
		if !v.IsNil() {
			collectSecrets(v.Elem(), out, seen)
		}
	case reflect.Slice, reflect.Array:
		for i := 0; i < v.Len(); i++ {
			collectSecrets(v.Index(i), out, seen)
		}
	case reflect.Map:
		it := v.MapRange()
		for it.Next() {
			collectSecrets(it.Value(), out, seen)
		}
	case reflect.Struct:
		for i := 0; i < v.NumField(); i++ {
			if t.Field(i).IsExported() {
				collectSecrets(v.Field(i), out, seen)
			}
		}
	}
}

type statusAPI struct{ api *apiv2.API }

func newStatusAPI() (*statusAPI, error) {
	a, err := apiv2.NewAPI(nil, nil, nil, nil, nil, promslog.NewNopLogger(), prometheus.NewRegistry())
	if err != nil {
		return nil, err
	}
	return &statusAPI{a}, nil
}

// get serves one GET request in process with the configuration installed by api.Update.
func (s *statusAPI) get(cfg *config.Config, path string) (int, string) {
	s.api.Update(cfg, func(context.Context, model.LabelSet) {})
	rec := httptest.NewRecorder()
	s.api.Handler.ServeHTTP(rec, httptest.NewRequest(http.MethodGet, path, nil))
	return rec.Code, rec.Body.String()
}

type secretCase struct {
	Origin  string            `json:"origin"`
	YAML    string            `json:"yaml"`
	Secrets map[string]string `json:"secrets"` // canary token -> path
}

// checkSecretCase loads the document and requires that no canary occurs in String() nor in
// the status API.  Returns false if the document is not acceptable.
func (k *checker) checkSecretCase(i int, api *statusAPI, sc secretCase, covered map[string]bool) bool {
	r := safeLoad(sc.YAML)
	if r.timeout || r.panicV != nil {
		k.bad(i, "panic", fmt.Sprintf("config.Load panics or hangs on a configuration with secrets: %v", r.panicV), nil, nil, sc)
		return false
	}
	if r.err != nil {
		return false
	}
	var loaded []string
	collectSecrets(reflect.ValueOf(r.cfg), &loaded, map[uintptr]bool{})
	all := strings.ToLower(strings.Join(loaded, "\n"))
	var s string
	if p, _ := safely(func() { s = r.cfg.String() }); p != nil {
		k.bad(i, "string_panics", fmt.Sprintf("Config.String() panics: %v", p), nil, nil, sc)
		return true
	}
	code, body := api.get(r.cfg, "/api/v2/status")
	if code != 200 {
		k.bad(i, "status_api", fmt.Sprintf("GET /api/v2/status returns %d", code), 200, body, sc)
		return true
	}
	var st struct {
		Config struct {
			Original string `json:"original"`
		} `json:"config"`
	}
	if err := json.Unmarshal([]byte(body), &st); err != nil || st.Config.Original != s {
		k.bad(i, "drift_status_api", "config.original of GET /api/v2/status is not Config.String()", s, st.Config.Original, sc)
	}
	_, rbody := api.get(r.cfg, "/api/v2/receivers")
	ls, lbody, lrbody := strings.ToLower(s), strings.ToLower(body), strings.ToLower(rbody)
	for tok, path := range sc.Secrets {
		if !strings.Contains(all, tok) {
			// the loader dropped or did not store the value in a secret-typed field
			k.res.Count("canary_not_in_loaded_secret_field", 1)
			continue
		}
		covered[path] = true
		k.res.Steps++
		for _, o := range []struct{ where, text string }{{"Config.String()", ls}, {"GET /api/v2/status", lbody}, {"GET /api/v2/receivers", lrbody}} {
			if strings.Contains(o.text, tok) {
				k.bad(i, "secret_leak", fmt.Sprintf("secret %s (canary %s) occurs in %s", path, tok, o.where), "<secret>", excerpt(o.text, tok), sc)
			}
		}
	}
	if strings.Contains(s, "<secret>") {
		k.res.Count("configs_with_masked_secret", 1)
	}
	return true
}

func excerpt(text, tok string) string {
	i := strings.Index(text, tok)
	a, b := i-80, i+len(tok)+40
	if a < 0 {
		a = 0
	}
	if b > len(text) {
		b = len(text)
	}
	return text[a:b]
}

// fill greedily adds secret paths to base while the document stays acceptable; wrap builds
// the full document from the (possibly partial) body.  Returns the accepted documents.
func fill(origin string, bases []doc, paths []secretPath, wrap func(body doc) doc, prefix []string, next *int) (cases []secretCase, uncovered []secretPath) {
	remaining := append([]secretPath{}, paths...)
	for progress := true; progress && len(remaining) > 0; {
		progress = false
		for _, base := range bases {
			cur := deepCopy(base).(doc)
			secrets := map[string]string{}
			var left []secretPath
			pending := remaining
			for pass := 0; pass < 3 && len(pending) > 0; pass++ {
				left = nil
				for _, p := range pending {
					try := deepCopy(cur).(doc)
					rel := p.Path[len(prefix):]
					tok := canaryFor(*next)
					setPath(try, rel, canaryValue(p.Type, tok))
					companions(try, rel)
					if r := safeLoad(marshalDoc(wrap(try))); r.err == nil && r.panicV == nil && !r.timeout {
						cur = try
						secrets[tok] = p.String()
						*next++
					} else {
						left = append(left, p)
					}
				}
				pending = left
			}
			if len(secrets) > 0 {
				cases = append(cases, secretCase{Origin: origin, YAML: marshalDoc(wrap(cur)), Secrets: secrets})
				remaining = left
				progress = true
			}
			if len(remaining) == 0 {
				break
			}
		}
	}
	return cases, remaining
}

// unreachable: secret paths that the loader's own rules exclude from every accepted
// configuration (verified by the greedy search failing on them).
func unreachable(p secretPath) string {
	s := p.String()
	if strings.Contains(s, "webex_configs.[].http_config.") && (strings.Contains(s, ".basic_auth.") || strings.Contains(s, ".oauth2.")) {
		return "webex requires http_config.authorization, which excludes basic_auth and oauth2"
	}
	return ""
}

func TestSecrets(t *testing.T) {
	res := hx.NewResult()
	defer res.Write()
	k := &checker{res: res}
	api, err := newStatusAPI()
	if err != nil {
		t.Fatal(err)
	}
	all, odd := secretPaths(reflect.TypeOf(config.Config{}))
	for _, o := range odd {
		res.Notes = append(res.Notes, "secret-typed field with a _file name: "+o)
	}
	res.Count("secret_paths", len(all))
	byTop := map[string][]secretPath{}
	var kinds []string
	for _, p := range all {
		top := p.Path[0]
		if top == "receivers" {
			top = p.Path[2] // receivers [] <kind>_configs
		}
		if _, ok := byTop[top]; !ok {
			kinds = append(kinds, top)
		}
		byTop[top] = append(byTop[top], p)
	}
	// every integration kind of config.Receiver must be known here, also those without own secrets
	rt := reflect.TypeOf(config.Receiver{})
	for i := 0; i < rt.NumField(); i++ {
		name := strings.Split(rt.Field(i).Tag.Get("yaml"), ",")[0]
		if !strings.HasSuffix(name, "_configs") {
			continue
		}
		if _, ok := kindBases[name]; !ok {
			res.Notes = append(res.Notes, "UNCOVERED receiver kind without a base document in the harness: "+name)
			res.Count("uncovered_kinds", 1)
		}
		res.Count("receiver_kinds", 1)
	}
	sort.Strings(kinds)
	next := 1
	covered := map[string]bool{}
	n := 0
	run := func(cases []secretCase) {
		for _, sc := range cases {
			res.Cases++
			if len(res.Samples) < 2 {
				res.Sample(hx.J(sc))
			}
			if !k.checkSecretCase(n, api, sc, covered) {
				res.Notes = append(res.Notes, "internal: a document accepted while filling is rejected now: "+sc.Origin)
			}
			n++
		}
	}
	var uncovered []secretPath
	for _, kind := range kinds {
		paths := byTop[kind]
		switch {
		case strings.HasSuffix(kind, "_configs"):
			bases, ok := kindBases[kind]
			if !ok {
				uncovered = append(uncovered, paths...)
				continue
			}
			kd := kind
			cases, un := fill("receiver:"+kind, bases, paths, func(b doc) doc { return receiverDoc(kd, b) }, []string{"receivers", "[]", kind, "[]"}, &next)
			run(cases)
			uncovered = append(uncovered, un...)
			res.Nontrivial++
		case kind == "global":
			wrap := func(g doc) doc {
				d := globalBase()
				for key, v := range g {
					d["global"].(doc)[key] = v
				}
				// add every heir that the document stays acceptable with
				rcv := d["receivers"].([]any)[0].(doc)
				for _, h := range globalHeirs {
					rcv[h.kind] = []any{deepCopy(h.body)}
					if r := safeLoad(marshalDoc(d)); r.err != nil || r.panicV != nil {
						delete(rcv, h.kind)
					}
				}
				return d
			}
			cases, un := fill("global", []doc{{}}, paths, wrap, []string{"global"}, &next)
			run(cases)
			uncovered = append(uncovered, un...)
			res.Nontrivial++
		case kind == "tracing":
			wrap := func(b doc) doc {
				d := doc{"route": doc{"receiver": "r"}, "receivers": []any{doc{"name": "r"}}}
				tr := doc{"endpoint": "otel.example.com:4317"}
				for key, v := range b {
					tr[key] = v
				}
				d["tracing"] = tr
				return d
			}
			cases, un := fill("tracing", []doc{{}}, paths, wrap, []string{"tracing"}, &next)
			run(cases)
			uncovered = append(uncovered, un...)
		case kind == "event_recorder":
			wrap := func(b doc) doc {
				d := doc{"route": doc{"receiver": "r"}, "receivers": []any{doc{"name": "r"}}}
				er := doc{}
				for key, v := range b {
					er[key] = v
				}
				if ko, ok := er["kafka_outputs"].([]any); ok && ko[0] != nil {
					ko[0].(doc)["brokers"] = []any{"kafka.example.com:9092"}
					ko[0].(doc)["topic"] = "events"
				}
				d["event_recorder"] = er
				return d
			}
			cases, un := fill("event_recorder", []doc{{}, {"webhook_outputs": []any{doc{"url": "https://events.example.com/in"}}}}, paths, wrap, []string{"event_recorder"}, &next)
			run(cases)
			uncovered = append(uncovered, un...)
		default:
			uncovered = append(uncovered, paths...)
		}
	}
	nun := 0
	for _, p := range uncovered {
		if why := unreachable(p); why != "" {
			res.Count("unreachable_paths", 1)
			res.Notes = append(res.Notes, "secret path that no accepted configuration can set: "+p.String()+" ("+why+")")
			continue
		}
		nun++
		res.Notes = append(res.Notes, "UNCOVERED secret path (no acceptable document found): "+p.String())
	}
	res.Count("uncovered_paths", nun)
	res.Count("covered_paths", len(covered))
}

// ---------------------------------------------------------------- TestCoordinator

type cop struct {
	Op       string `json:"op"`
	Cfg      *mcfg  `json:"cfg,omitempty"`
	Defect   string `json:"defect,omitempty"`
	SubFails bool   `json:"sub_fails,omitempty"`
	Result   string `json:"result,omitempty"`
	Raw      string `json:"raw,omitempty"` // harness-made steps: literal file content
}

type cstep struct {
	E        cop  `json:"e"`
	Fid      int  `json:"fid"`
	Valid    bool `json:"valid"`
	Running  int  `json:"running"`
	Reported int  `json:"reported"`
	Handed   int  `json:"handed"`
}

func md5Metric(data []byte) float64 {
	sum := md5.Sum(data)
	b := make([]byte, 8)
	copy(b, sum[0:6])
	return float64(binary.LittleEndian.Uint64(b))
}

func gauge(reg *prometheus.Registry, name string) (float64, bool) {
	mfs, err := reg.Gather()
	if err != nil {
		return 0, false
	}
	for _, mf := range mfs {
		if mf.GetName() == name && len(mf.Metric) == 1 {
			return mf.Metric[0].GetGauge().GetValue(), true
		}
	}
	return 0, false
}

var (
	coordDir  string
	coordSeq  int
	stringMem = map[string]string{} // file text -> Config.String() of the loaded file ("" if rejected)
)

func stringOfText(text string) string {
	if s, ok := stringMem[text]; ok {
		return s
	}
	s := ""
	if c, err := config.Load(text); err == nil {
		s = c.String()
	}
	stringMem[text] = s
	return s
}

func (k *checker) replayCoordinator(t *testing.T, i int, h []cstep, line []byte) (nontrivial bool) {
	if coordDir == "" {
		coordDir = t.TempDir()
	}
	coordSeq++
	path := filepath.Join(coordDir, fmt.Sprintf("alertmanager-%d.yml", coordSeq))
	defer os.Remove(path)
	reg := prometheus.NewRegistry()
	co := config.NewCoordinator(path, reg, promslog.NewNopLogger())
	texts := map[int]string{}     // file id -> text
	hashes := map[float64]int{}   // hash metric value -> file id
	strOf := map[string]int{}     // Config.String() of a file -> file id
	curFid, failNext := 1, false
	var calls []*config.Config
	var applied *config.Config
	appliedFid := 0
	co.Subscribe(func(c *config.Config) error {
		calls = append(calls, c)
		if failNext {
			return errors.New("subscriber refuses the configuration")
		}
		applied = c
		return nil
	})
	write := func(fid int, text string) error {
		texts[fid] = text
		hashes[md5Metric([]byte(text))] = fid
		if cs := stringOfText(text); cs != "" {
			strOf[cs] = fid
		}
		curFid = fid
		tmp := path + ".tmp"
		if err := os.WriteFile(tmp, []byte(text), 0o644); err != nil {
			return err
		}
		return os.Rename(tmp, path)
	}
	// the specification starts with file 1 (the minimal valid configuration) on disk
	if err := write(1, render(mcfg{Recv: []string{"r1"}, Routes: []mroute{{Recv: "r1", M: "none", Gi: -1, Ri: -1}}})); err != nil {
		t.Fatal(err)
	}
	bad := func(j int, class, what string, want, got any) {
		k.res.Add(hx.Mismatch{Case: i, Step: j, What: what, Want: want, Got: got, Class: class, Replay: json.RawMessage(line)})
		k.res.Count("class:"+class, 1)
	}
	for j, st := range h {
		k.res.Steps++
		switch st.E.Op {
		case "write":
			text := st.E.Raw
			if st.E.Cfg != nil {
				text = render(*st.E.Cfg)
			}
			if err := write(st.Fid, text); err != nil {
				t.Fatal(err)
			}
			continue
		case "delete":
			os.Remove(path)
			curFid = st.Fid
			continue
		}
		// reload
		failNext = st.E.SubFails
		calls = nil
		beforeApplied, beforeFid := applied, appliedFid
		beforeHash, _ := gauge(reg, "alertmanager_config_hash")
		var err error
		if p, _ := safely(func() { err = co.Reload() }); p != nil {
			bad(j, "panic", fmt.Sprintf("Coordinator.Reload panics: %v", p), nil, nil)
			return
		}
		result := "ok"
		if err != nil {
			result = "loadError"
			if len(calls) > 0 {
				result = "subscriberError"
			}
		}
		handed := 0
		if len(calls) > 0 {
			if id, ok := strOf[calls[len(calls)-1].String()]; ok {
				handed = id
			} else {
				handed = -1
			}
		}
		if applied != beforeApplied {
			appliedFid = handed
		}
		hash, _ := gauge(reg, "alertmanager_config_hash")
		succ, _ := gauge(reg, "alertmanager_config_last_reload_successful")
		reported := 0
		if hash != 0 {
			reported = hashes[hash]
		}
		got := map[string]any{"result": result, "handed": handed, "running": appliedFid, "reported": reported, "success_metric": succ}
		want := map[string]any{"result": st.E.Result, "handed": st.Handed, "running": st.Running, "reported": st.Reported}
		rejected := err != nil
		if rejected {
			nontrivial = nontrivial || beforeFid != 0
			if applied != beforeApplied || hash != beforeHash {
				bad(j, "rejected_reload_changes", "a rejected reload changed the configuration in force or the one the coordinator reports", want, got)
				return
			}
			if succ != 0 {
				bad(j, "rejected_reload_success", "the coordinator reports the rejected reload as successful", 0, succ)
				return
			}
		}
		if !rejected && st.E.Result != "ok" {
			if !st.Valid {
				bad(j, "reload_accepts_invalid", "Reload succeeds with a file the specification rejects", want, got)
			} else {
				bad(j, "reload_ignores_subscriber", "Reload succeeds although the subscriber refused the configuration", want, got)
			}
			return
		}
		if reported != appliedFid {
			bad(j, "reported_not_running", "the configuration the coordinator reports (hash metric) is not the one the subscribers run with", want, got)
			return
		}
		if rejected && st.E.Result == "ok" {
			bad(j, "drift_rejects_valid", "Reload fails with a file and subscriber the specification accepts: "+err.Error(), want, got)
			return
		}
		if result != st.E.Result || handed != st.Handed || appliedFid != st.Running || reported != st.Reported {
			bad(j, "drift_coordinator", "coordinator step differs from the specification", want, got)
			return
		}
		if !rejected && succ != 1 {
			bad(j, "drift_coordinator", "success metric is not 1 after a successful reload", 1, succ)
		}
		_ = curFid
	}
	return nontrivial
}

func TestCoordinator(t *testing.T) {
	res := hx.NewResult()
	defer res.Write()
	k := &checker{res: res}
	// scripted behaviours outside the pool of the specification: unparseable and missing files
	v1 := mcfg{Recv: []string{"r1", "r2"}, Routes: []mroute{{Recv: "r1", M: "none", Gi: -1, Ri: -1}, {P: 1, Recv: "r2", M: "matchers", Gi: -1, Ri: -1}}}
	extra := [][]cstep{
		{
			{E: cop{Op: "reload", Result: "ok"}, Fid: 1, Valid: true, Running: 1, Reported: 1, Handed: 1},
			{E: cop{Op: "write", Raw: "route: [unclosed\n  receiver"}, Fid: 8},
			{E: cop{Op: "reload", Result: "loadError"}, Fid: 8, Running: 1, Reported: 1, Handed: 0},
			{E: cop{Op: "write", Raw: ""}, Fid: 9},
			{E: cop{Op: "reload", Result: "loadError", SubFails: true}, Fid: 9, Running: 1, Reported: 1, Handed: 0},
			{E: cop{Op: "delete"}, Fid: 10},
			{E: cop{Op: "reload", Result: "loadError"}, Fid: 10, Running: 1, Reported: 1, Handed: 0},
			{E: cop{Op: "write", Cfg: &v1}, Fid: 2, Valid: true},
			{E: cop{Op: "reload", Result: "subscriberError", SubFails: true}, Fid: 2, Valid: true, Running: 1, Reported: 1, Handed: 2},
			{E: cop{Op: "reload", Result: "ok"}, Fid: 2, Valid: true, Running: 2, Reported: 2, Handed: 2},
			{E: cop{Op: "write", Raw: "route:\n  receiver: r1\n  routes:\n  - receiver: r1\n    routes: 7\nreceivers:\n- name: r1\n"}, Fid: 11},
			{E: cop{Op: "reload", Result: "loadError"}, Fid: 11, Running: 2, Reported: 2, Handed: 0},
		},
	}
	for i, h := range extra {
		res.Cases++
		line, _ := json.Marshal(h)
		if k.replayCoordinator(t, -1-i, h, line) {
			res.Nontrivial++
		}
	}
	err := hx.Lines(*hx.In, func(i int, line []byte) error {
		var h []cstep
		if err := json.Unmarshal(line, &h); err != nil {
			return fmt.Errorf("line %d: %v", i, err)
		}
		res.Cases++
		if i%499 == 0 {
			res.Sample(line)
		}
		if k.replayCoordinator(t, i, h, line) {
			res.Nontrivial++
		}
		return nil
	})
	if err != nil {
		t.Fatal(err)
	}
}

// ---------------------------------------------------------------- TestRobust

const richDoc = `global:
  resolve_timeout: 3m
  smtp_smarthost: smtp.example.com:587
  smtp_from: am@example.com
  smtp_require_tls: false
  http_config:
    follow_redirects: false
templates:
- /etc/am/templates/*.tmpl
route:
  receiver: default
  group_by: [alertname, cluster]
  group_wait: 10s
  group_interval: 1m
  repeat_interval: 3h
  routes:
  - receiver: team-x
    matchers:
    - team="x"
    - severity=~"critical|warning"
    continue: true
    group_by: ['...']
    mute_time_intervals: [offhours]
    routes:
    - match:
        env: prod
      receiver: pager
      repeat_interval: 30m
      active_time_intervals: [workdays]
  - match_re:
      service: db.*|cache
    group_by: [service]
    group_interval: 5m
    labels:
      tier: backend
receivers:
- name: default
- name: team-x
  webhook_configs:
  - url_file: /etc/am/hook
    send_resolved: false
    max_alerts: 10
  email_configs:
  - to: x@example.com
    headers:
      Subject: alert
- name: pager
  pagerduty_configs:
  - routing_key_file: /etc/am/pd
    severity: critical
  slack_configs:
  - api_url_file: /etc/am/slack
    channel: '#alerts'
    actions:
    - type: button
      text: ack
      url: https://example.com/ack
inhibit_rules:
- name: crit-over-warn
  source_matchers: [severity="critical"]
  target_matchers: [severity="warning"]
  equal: [alertname, cluster]
- source_match:
    alertname: down
  target_match_re:
    alertname: slow.*
  equal: [instance]
mute_time_intervals:
- name: offhours
  time_intervals:
  - weekdays: [saturday, sunday]
  - times:
    - start_time: '00:00'
      end_time: '08:00'
    location: Europe/Paris
time_intervals:
- name: workdays
  time_intervals:
  - weekdays: ['monday:friday']
    days_of_month: ['1:-1']
    months: ['january:december']
    years: ['2020:2040']
`

const smallDoc = `route:
  receiver: a
  routes:
  - receiver: b
    matchers: [x="y"]
receivers:
- name: a
- name: b
time_intervals:
- name: t
  time_intervals:
  - weekdays: [monday]
`

type variant struct {
	name, text string
}

func indentOf(l string) string { return l[:len(l)-len(strings.TrimLeft(l, " "))] }

// corruptions returns structural corruptions of a valid document.
func corruptions(seed string, text string, rnd *rand.Rand) []variant {
	var out []variant
	add := func(name, t string) { out = append(out, variant{seed + ":" + name, t}) }
	lines := strings.Split(strings.TrimRight(text, "\n"), "\n")
	join := func(ls []string) string { return strings.Join(ls, "\n") + "\n" }
	splice := func(i int, repl ...string) string {
		ls := append([]string{}, lines[:i]...)
		ls = append(ls, repl...)
		ls = append(ls, lines[i+1:]...)
		return join(ls)
	}
	wrong := []string{"[1, 2]", "{a: b}", "12345", "true", "null", "~", `""`, "!!binary aGk=", "1e999", "-1", "0", "[]", "{}", "- x", "!!float abc", "2001-12-14t21:59:43.10-05:00", "0x7fffffffffffffff1", "|\n      block\n", "'...'", "[null]", "[[]]"}
	for i, l := range lines {
		add(fmt.Sprintf("truncate@%d", i), join(lines[:i]))
		if len(l) > 3 {
			add(fmt.Sprintf("truncate-mid@%d", i), join(lines[:i])+l[:len(l)/2])
		}
		add(fmt.Sprintf("drop@%d", i), splice(i))
		add(fmt.Sprintf("dup@%d", i), splice(i, l, l))
		ind := indentOf(l)
		body := strings.TrimLeft(l, " ")
		add(fmt.Sprintf("unknown@%d", i), splice(i, l, unknownAt(ind, body)))
		add(fmt.Sprintf("tab@%d", i), splice(i, "\t"+body))
		add(fmt.Sprintf("indent+@%d", i), splice(i, ind+" "+body))
		if len(ind) >= 2 {
			add(fmt.Sprintf("indent-@%d", i), splice(i, ind[2:]+body))
		}
		if strings.HasPrefix(body, "- ") {
			add(fmt.Sprintf("nullitem@%d", i), splice(i, ind+"- null"))
			add(fmt.Sprintf("emptyitem@%d", i), splice(i, ind+"-"))
			add(fmt.Sprintf("extranull@%d", i), splice(i, ind+"-", l))
			add(fmt.Sprintf("extranull2@%d", i), splice(i, ind+"- ~", l))
		}
		if j := strings.Index(body, ":"); j > 0 {
			key := body[:j+1]
			hasVal := strings.TrimSpace(body[j+1:]) != ""
			for _, w := range wrong {
				if hasVal || rnd.Intn(3) == 0 {
					add(fmt.Sprintf("type@%d=%s", i, strings.Fields(w)[0]), splice(i, ind+key+" "+w))
				}
			}
			if hasVal {
				add(fmt.Sprintf("long@%d", i), splice(i, ind+key+" "+strings.Repeat("x", 1<<20)))
				add(fmt.Sprintf("anchor@%d", i), splice(i, ind+key+" &anc "+strings.TrimSpace(body[j+1:]), aliasKey(ind, key)))
				add(fmt.Sprintf("novalue@%d", i), splice(i, ind+key))
			}
		}
	}
	// whole-document corruptions
	add("crlf", strings.ReplaceAll(text, "\n", "\r\n"))
	add("bom", "\ufeff"+text)
	add("two-docs", text+"---\n"+text)
	add("doc-end", text+"...\ngarbage: [\n")
	add("nul", strings.Replace(text, "receiver", "recei\x00ver", 1))
	add("bad-utf8", strings.Replace(text, "receiver", "recei\xff\xfever", 1))
	add("merge-key", "base: &b\n  receiver: a\n"+text)
	add("tabs-everywhere", strings.ReplaceAll(text, "  ", "\t"))
	add("flow", "{route: {receiver: a, routes: [{receiver: a, routes: [{receiver: a}]}]}, receivers: [{name: a}]}")
	add("alias-route", "route: &r\n  receiver: a\n  routes:\n  - receiver: a\n    matchers: [x=\"y\"]\nreceivers:\n- name: a\ninhibit_rules:\n- equal: &e [a, b]\n- equal: *e\n")
	add("alias-subtree", "route:\n  receiver: a\n  routes:\n  - &n\n    receiver: a\n    matchers: [x=\"y\"]\n    routes:\n    - receiver: a\n  - *n\n  - *n\nreceivers:\n- name: a\n")
	add("alias-self", "route: &r\n  receiver: a\n  routes: [*r]\nreceivers:\n- name: a\n")
	add("alias-undefined", "route:\n  receiver: *nope\nreceivers:\n- name: a\n")
	add("merge-route", "x: &m {receiver: a}\nroute:\n  <<: *m\nreceivers:\n- name: a\n")
	add("merge-route-inner", "route:\n  receiver: a\n  routes:\n  - &m {receiver: a, group_by: [x]}\n  - <<: *m\n    group_interval: 0s\nreceivers:\n- name: a\n")
	// an alias bomb of modest size under a field of type `any`
	for _, depth := range []int{6, 9} {
		var b strings.Builder
		b.WriteString("route:\n  receiver: a\nreceivers:\n- name: a\n  webhook_configs:\n  - url_file: /f\n    payload:\n      a0: &a0 [lol, lol, lol, lol, lol, lol]\n")
		for d := 1; d <= depth; d++ {
			fmt.Fprintf(&b, "      a%d: &a%d [*a%d, *a%d, *a%d, *a%d, *a%d, *a%d]\n", d, d, d-1, d-1, d-1, d-1, d-1, d-1)
		}
		add(fmt.Sprintf("alias-bomb-%d", depth), b.String())
	}
	// deep nesting
	for _, depth := range []int{50, 1000, 9000} {
		var b strings.Builder
		b.WriteString("route:\n  receiver: a\n")
		ind := "  "
		for d := 0; d < depth && d < 1000; d++ {
			b.WriteString(ind + "routes:\n" + ind + "- receiver: a\n")
			ind += "  "
		}
		b.WriteString("receivers:\n- name: a\n")
		if depth <= 1000 {
			add(fmt.Sprintf("deep-routes-%d", depth), b.String())
		}
		add(fmt.Sprintf("deep-flow-seq-%d", depth), "route:\n  receiver: a\n  group_by: "+strings.Repeat("[", depth)+strings.Repeat("]", depth)+"\nreceivers:\n- name: a\n")
		add(fmt.Sprintf("deep-flow-routes-%d", depth), "route: "+strings.Repeat("{receiver: a, routes: [", depth)+"{receiver: a}"+strings.Repeat("]}", depth)+"\nreceivers:\n- name: a\n")
		add(fmt.Sprintf("deep-unclosed-%d", depth), "route: "+strings.Repeat("{a: [", depth))
	}
	add("wide-routes", "route:\n  receiver: a\n  routes:\n"+strings.Repeat("  - receiver: a\n    matchers: [x=\"y\"]\n", 20000)+"receivers:\n- name: a\n")
	add("wide-receivers", "route:\n  receiver: r0\nreceivers:\n"+func() string {
		var b strings.Builder
		for i := 0; i < 20000; i++ {
			fmt.Fprintf(&b, "- name: r%d\n", i)
		}
		return b.String()
	}())
	add("long-key", "route:\n  receiver: a\n  "+strings.Repeat("k", 1<<20)+": 1\nreceivers:\n- name: a\n")
	add("long-matcher", "route:\n  receiver: a\n  routes:\n  - matchers: ['x=~\""+strings.Repeat("(a|b)", 1<<15)+"\"']\nreceivers:\n- name: a\n")
	add("long-regex-nest", "route:\n  receiver: a\n  routes:\n  - match_re:\n      x: '"+strings.Repeat("(", 2000)+strings.Repeat(")", 2000)+"'\nreceivers:\n- name: a\n")
	return out
}

func unknownAt(ind, body string) string {
	if strings.HasPrefix(body, "- ") {
		return ind + "  no_such_field: 1"
	}
	return ind + "no_such_field: 1"
}

func aliasKey(ind, key string) string {
	if strings.HasPrefix(key, "- ") {
		return ind + "  alias_of_it: *anc"
	}
	return ind + "alias_of_it: *anc"
}

func TestRobust(t *testing.T) {
	res := hx.NewResult()
	defer res.Write()
	k := &checker{res: res}
	rnd := rand.New(rand.NewSource(*hx.Seed))
	seeds := []variant{{"rich", richDoc}, {"small", smallDoc}}
	if dir := os.Getenv("C17_TESTDATA"); dir != "" {
		for _, f := range []string{"conf.good.yml", "conf.group-by-all.yml", "conf.empty-fields.yml"} {
			if b, err := os.ReadFile(filepath.Join(dir, f)); err == nil {
				if r := safeLoad(string(b)); r.err == nil && r.panicV == nil {
					seeds = append(seeds, variant{f, string(b)})
				}
			}
		}
	}
	seen := map[[16]byte]bool{}
	n := 0
	kinds := map[string]bool{}
	for _, s := range seeds {
		if r := safeLoad(s.text); r.err != nil || r.panicV != nil {
			t.Fatalf("seed document %s is not acceptable: %v %v", s.name, r.err, r.panicV)
		}
		vs := corruptions(s.name, s.text, rnd)
		if *hx.N > 0 && s.name != "rich" && s.name != "small" && len(vs) > *hx.N*10 {
			rnd.Shuffle(len(vs), func(i, j int) { vs[i], vs[j] = vs[j], vs[i] })
			vs = vs[:*hx.N*10]
		}
		for _, v := range vs {
			h := md5.Sum([]byte(v.text))
			if seen[h] {
				continue
			}
			seen[h] = true
			res.Cases++
			res.Steps++
			text := v.text
			origin := v.name
			hasSecrets := s.name == "conf.good.yml"
			before := res.NMismatches
			ok, _ := k.judge(n, origin, text, 0, hasSecrets)
			if res.NMismatches > before && len(text) > 1<<14 {
				// keep artefacts small: the long documents are reproducible from their name
				m := &res.Mismatches[len(res.Mismatches)-1]
				m.Replay = hx.J(map[string]any{"origin": origin, "yaml": text[:1<<12] + "...(truncated)"})
			}
			kind := strings.SplitN(strings.SplitN(v.name, ":", 2)[1], "@", 2)[0]
			if !kinds[kind] {
				kinds[kind] = true
				res.Nontrivial++
			}
			if ok {
				res.Count("accepted_kind:"+kind, 1)
			}
			n++
		}
	}
	res.Count("corruption_kinds", len(kinds))
}

var _ = bytes.Equal

// ---------------------------------------------------------------- TestKnown

// Canonical reproducers of the recorded findings (known_findings.d/C17.json).  Each is
// judged like any other document; the counter repro:<class> says whether the real code
// still shows the defect.
var knownRepro = []struct{ class, text string }{
	{"panic_null_route", "route:\n  receiver: a\n  routes:\n  - \nreceivers:\n- name: a\n"},
	{"panic_null_http_config", "global:\n  http_config:\nroute:\n  receiver: a\nreceivers:\n- name: a\n  slack_configs:\n  - api_url_file: /etc/am/slack\n    channel: '#c'\n"},
	{"rt_null_element", "route:\n  receiver: a\nreceivers:\n- name: a\n- \n"},
	{"rt_empty_group_by", "route:\n  receiver: a\n  group_by: [x]\n  routes:\n  - group_by: []\n    matchers: ['a=\"b\"']\nreceivers:\n- name: a\n"},
	{"rt_empty_regexp", "route:\n  receiver: a\n  routes:\n  - match_re:\n      a: ''\nreceivers:\n- name: a\n"},
	{"rt_empty_secret_pointer", "route:\n  receiver: a\nreceivers:\n- name: a\n  rocketchat_configs:\n  - token: ''\n    token_id_file: /etc/am/id\n"},
	{"rt_empty_interval_field", "route:\n  receiver: a\n  routes:\n  - matchers: ['a=\"b\"']\n    mute_time_intervals: [t]\nreceivers:\n- name: a\ntime_intervals:\n- name: t\n  time_intervals:\n  - times: []\n"},
}

func TestKnown(t *testing.T) {
	res := hx.NewResult()
	defer res.Write()
	k := &checker{res: res}
	for i, kr := range knownRepro {
		res.Cases++
		before := res.NMismatches
		k.judge(i, "known:"+kr.class, kr.text, 0, false)
		got := "none"
		if res.NMismatches > before {
			got = res.Mismatches[len(res.Mismatches)-1].Class
		}
		if got == kr.class {
			res.Count("repro:"+kr.class, 1)
			res.Nontrivial++
		} else {
			res.Notes = append(res.Notes, fmt.Sprintf("reproducer of %s gives %s", kr.class, got))
		}
	}
}

// TestDocument judges one YAML document (-in file): used by `bin/check C17 --replay`.
func TestDocument(t *testing.T) {
	res := hx.NewResult()
	defer res.Write()
	b, err := os.ReadFile(*hx.In)
	if err != nil {
		t.Fatal(err)
	}
	res.Cases++
	(&checker{res: res}).judge(0, "replay", string(b), 0, false)
}
