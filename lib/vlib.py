"""Common machinery of /verif/bin/check: TLC runner, Go harness runner, evidence,
known findings, verdict policy (DESIGN.md section 4).

Exit codes of a check:
  0  property held on everything explored (KNOWN-FINDING lines allowed)
  1  VIOLATION property=<id> replay=<path>
  2  INCONCLUSIVE (build failure, timeout, TLC crash, self-check/vacuity failure)
"""
import json, os, re, shutil, subprocess, sys, time, hashlib, glob

VERIF = os.path.dirname(os.path.dirname(os.path.abspath(__file__)))
REPO = os.environ.get("VERIF_REPO", "/repo")
SPEC = os.path.join(VERIF, "spec")
HARNESS = os.path.join(VERIF, "harness")
OUT = os.path.join(VERIF, "out")
EVID = os.path.join(VERIF, "evidence") if REPO == "/repo" else os.path.join(OUT, "evidence_scratch")
NCPU = os.cpu_count() or 4

GOENV = dict(GOFLAGS="-mod=mod", GOPROXY="off", GOSUMDB="off", GOTOOLCHAIN="local",
             CGO_ENABLED="0")


class Inconclusive(Exception):
    pass


def log(*a):
    print(*a, flush=True)


def seed():
    try:
        return int(os.environ.get("VERIF_SEED", "1"))
    except ValueError:
        return 1


# --------------------------------------------------------------------------- dirs
def workdir(pid, fresh=True):
    d = os.path.join(OUT, pid)
    if fresh and os.path.isdir(d):
        shutil.rmtree(d, ignore_errors=True)
    os.makedirs(d, exist_ok=True)
    return d


def keep_violation(pid, src_paths, note):
    """Copy the artefacts of a violation to out/violations/<pid>-<hash>/ and return dir."""
    h = hashlib.sha1((note + str(time.time())).encode()).hexdigest()[:10]
    d = os.path.join(OUT, "violations", "%s-%s" % (pid, h))
    os.makedirs(d, exist_ok=True)
    for p in src_paths:
        if p and os.path.exists(p):
            shutil.copy(p, d)
    with open(os.path.join(d, "note.txt"), "w") as f:
        f.write(note + "\n")
    return d


# --------------------------------------------------------------------------- TLC
class TLCResult:
    def __init__(self):
        self.rc = None
        self.stdout_path = None
        self.generated = 0
        self.distinct = 0
        self.violated = None      # name of violated invariant / property, or None
        self.error = None         # other error text
        self.depth = 0
        self.wall = 0.0
        self.coverage = {}        # action -> (count, distinct)
        self.lines = []           # payload lines (prefixed by marker)
        self.timed_out = False

    def ok(self):
        return self.rc == 0 and not self.violated and not self.error


def tlc(pid, name, module, cfg, workers=None, timeout=600, simulate=None, depth=None,
        coverage=False, extra=None, marker=None, payload_to=None, deque=False,
        heap=None, files=None):
    """Run TLC on spec/<module>.tla (or spec/mc/<module>.tla) with spec/mc/<cfg> in a
    scratch copy of the spec directory.  Lines of stdout starting with `marker` are
    payload (JSON produced by PrintT(ToJson(..))); they are written to `payload_to`
    (one per line, marker stripped) instead of being kept in memory."""
    wd = os.path.join(OUT, pid, "tlc_" + name)
    if os.path.isdir(wd):
        shutil.rmtree(wd)
    os.makedirs(wd)
    for f in glob.glob(os.path.join(SPEC, "*.tla")) + glob.glob(os.path.join(SPEC, "mc", "*")):
        shutil.copy(f, wd)
    for f in (files or []):
        shutil.copy(f, wd)
    w = workers or NCPU
    cmd = ["java", "-XX:+UseParallelGC", "-Xss512m"]
    if heap:
        cmd.append("-Xmx" + heap)
    if deque:
        cmd.append("-Dtlc2.tool.queue.IStateQueue=StateDeque")
    cmd += ["-cp", "/opt/veriftools/tla/tla2tools.jar:/opt/veriftools/tla/CommunityModules-deps.jar",
            "tlc2.TLC", "-metadir", os.path.join(wd, "meta"), "-workers", str(w),
            "-config", cfg, "-noGenerateSpecTE"]
    if simulate:
        cmd += ["-simulate", simulate]
    if depth:
        cmd += ["-depth", str(depth)]
    if coverage:
        cmd += ["-coverage", "1"]
    cmd += (extra or [])
    cmd.append(module)
    r = TLCResult()
    r.stdout_path = os.path.join(wd, "stdout.txt")
    t0 = time.time()
    pay = open(payload_to, "w") if payload_to else None
    npay = 0
    env = dict(os.environ)
    env.pop("JAVA_TOOL_OPTIONS", None)
    with open(r.stdout_path, "w") as so:
        p = subprocess.Popen(cmd, cwd=wd, stdout=subprocess.PIPE, stderr=subprocess.STDOUT,
                             text=True, env=env, errors="replace")
        try:
            import threading
            timer = threading.Timer(timeout, lambda: (setattr(r, "timed_out", True), p.kill()))
            timer.start()
            for line in p.stdout:
                if marker and pay is not None:
                    ls = line.strip()
                    if ls.startswith('"' + marker) or ls.startswith(marker):
                        if ls.startswith('"'):     # PrintT of a string prints it quoted
                            try:
                                ls = json.loads(ls)
                            except Exception:
                                ls = ls[1:-1].replace('\\"', '"').replace("\\\\", "\\")
                        pay.write(ls[len(marker):].strip() + "\n")
                        npay += 1
                        continue
                so.write(line)
            p.wait()
        finally:
            timer.cancel()
    if pay:
        pay.close()
    r.rc = p.returncode
    r.wall = time.time() - t0
    r.npayload = npay
    txt = open(r.stdout_path, errors="replace").read()
    m = re.findall(r"(\d+) states generated, (\d+) distinct states found", txt)
    if m:
        r.generated, r.distinct = int(m[-1][0]), int(m[-1][1])
    m = re.search(r"The depth of the complete state graph search is (\d+)", txt)
    if m:
        r.depth = int(m.group(1))
    m = re.search(r"Error: Invariant (\S+) is violated", txt)
    if m:
        r.violated = m.group(1)
    m2 = re.search(r"Error: Action property (\S+) is violated", txt)
    if m2:
        r.violated = m2.group(1)
    if re.search(r"Error: Temporal properties were violated", txt):
        r.violated = r.violated or "temporal"
    if not r.violated:
        m = re.search(r"Error: (.*)", txt)
        if m and "Invariant" not in m.group(1):
            r.error = m.group(1).strip()
    if coverage:
        # "<Action line a, col b to line c, col d of module M (pos)>: distinct:generated"
        for m in re.finditer(r"^<(\w+) line (\d+), col \d+ to line \d+, col \d+ of module (\w+)(?: \(([\d ]+)\))?>: (\d+):(\d+)", txt, re.M):
            if m.group(1) == "Init":
                continue
            key = m.group(1) if m.group(1) not in ("Next", "GenNext", "TraceNext") else "%s@%s" % (m.group(1), (m.group(4) or m.group(2)).replace(" ", "."))
            d, g = r.coverage.get(key, (0, 0))
            r.coverage[key] = (d + int(m.group(5)), g + int(m.group(6)))
    if r.timed_out:
        r.error = "timeout after %ds" % timeout
    try:
        shutil.rmtree(os.path.join(wd, "meta"), ignore_errors=True)
    except Exception:
        pass
    return r


def tlc_must_pass(r, what):
    if r.timed_out:
        raise Inconclusive("%s: TLC timed out" % what)
    if r.violated:
        raise Inconclusive("%s: TLC reports %s violated on the specification (model or "
                           "property definition must be corrected; see %s)" % (what, r.violated, r.stdout_path))
    if r.error or r.rc != 0:
        raise Inconclusive("%s: TLC error: %s (see %s)" % (what, r.error, r.stdout_path))


# --------------------------------------------------------------------------- Go
def go_env():
    e = dict(os.environ)
    e.update(GOENV)
    e.setdefault("GOCACHE", os.path.expanduser("~/.cache/go-build"))
    return e


def harness_dir(pid):
    """The harness module to build.  With VERIF_REPO set (self-tests against a scratch
    worktree) a private copy is used whose go.mod points at that tree."""
    if REPO == "/repo":
        return HARNESS
    d = os.path.join(OUT, pid, "harness_copy")
    if os.path.isdir(d):
        shutil.rmtree(d)
    shutil.copytree(HARNESS, d)
    subprocess.run(["go1.26", "mod", "edit", "-replace",
                    "github.com/prometheus/alertmanager=" + REPO], cwd=d, env=go_env(), check=True)
    return d


def prepare_harness(hdir):
    """go.sum of the harness is the repository's."""
    src = os.path.join(REPO, "go.sum")
    dst = os.path.join(hdir, "go.sum")
    try:
        if not os.path.exists(dst) or open(src, "rb").read() != open(dst, "rb").read():
            shutil.copy(src, dst)
    except OSError as e:
        raise Inconclusive("cannot copy go.sum: %s" % e)


def overlay_file(pid):
    """Build a -overlay JSON: harness/overlay/<repo-relative-path>.go is added to the
    package at REPO/<path>; ui/web.go is replaced by a copy without its go:embed line
    (the UI assets are not in this tree, so package ui - and app, which imports it -
    would not compile otherwise)."""
    odir = os.path.join(HARNESS, "overlay")
    repl = {}
    for root, _, files in os.walk(odir):
        for f in files:
            if f.endswith(".go"):
                rel = os.path.relpath(os.path.join(root, f), odir)
                repl[os.path.join(REPO, rel)] = os.path.join(root, f)
    os.makedirs(os.path.join(OUT, pid), exist_ok=True)
    web = os.path.join(REPO, "ui", "web.go")
    if os.path.exists(web):
        src = open(web).read()
        if "//go:embed app/dist" in src and not os.path.isdir(os.path.join(REPO, "ui", "app", "dist")):
            gen = os.path.join(OUT, pid, "overlay_ui_web.go")
            open(gen, "w").write(src.replace("//go:embed app/dist", "// (embed directive removed by /verif overlay: assets absent)"))
            repl[web] = gen
    p = os.path.join(OUT, pid, "overlay.json")
    with open(p, "w") as fh:
        json.dump({"Replace": repl}, fh)
    return p


def go_build_test(pid, pkg, tags="verif", timeout=900, overlay=True):
    """Compile harness package pkg into out/<pid>/<pkg>.test from REPO's working tree."""
    hdir = harness_dir(pid)
    prepare_harness(hdir)
    binp = os.path.join(OUT, pid, pkg.replace("/", "_") + ".test")
    cmd = ["go1.26", "test", "-c", "-vet=off", "-tags", tags, "-o", binp]
    if overlay:
        cmd += ["-overlay", overlay_file(pid)]
    cmd.append("./" + pkg)
    t0 = time.time()
    p = subprocess.run(cmd, cwd=hdir, env=go_env(), stdout=subprocess.PIPE,
                       stderr=subprocess.STDOUT, text=True, timeout=timeout)
    if p.returncode != 0:
        raise Inconclusive("harness build failed for %s:\n%s" % (pkg, p.stdout[-4000:]))
    log("  built %s in %.1fs" % (pkg, time.time() - t0))
    return binp


def go_run_test(binp, run, args, timeout=1800, env_extra=None, cwd=None):
    """Run a compiled test binary; returns (rc, output)."""
    cmd = [binp, "-test.run", run, "-test.timeout", "%ds" % timeout, "-test.count", "1"] + args
    e = go_env()
    e.update(env_extra or {})
    try:
        p = subprocess.run(cmd, cwd=cwd or os.path.dirname(binp), env=e, stdout=subprocess.PIPE,
                           stderr=subprocess.STDOUT, text=True, timeout=timeout + 30)
    except subprocess.TimeoutExpired:
        raise Inconclusive("harness run timed out: %s" % " ".join(cmd))
    return p.returncode, p.stdout


def read_jsonl(path, limit=None):
    out = []
    with open(path) as f:
        for i, line in enumerate(f):
            if limit is not None and i >= limit:
                break
            line = line.strip()
            if line:
                out.append(json.loads(line))
    return out


def count_lines(path):
    n = 0
    with open(path, "rb") as f:
        for _ in f:
            n += 1
    return n


# --------------------------------------------------------------------------- known findings
def known_findings(pid, status="open"):
    """Entries of known_findings.json and known_findings.d/*.json for this property."""
    out = []
    files = [os.path.join(VERIF, "known_findings.json")] + sorted(glob.glob(os.path.join(VERIF, "known_findings.d", "*.json")))
    for p in files:
        if not os.path.exists(p):
            continue
        d = json.load(open(p))
        out += [f for f in d.get("findings", []) if f.get("property") == pid and f.get("status", "open") == status]
    return out


# --------------------------------------------------------------------------- evidence
def write_evidence(pid, tier, level, coverage, wall, violations=0, assumptions=None):
    os.makedirs(EVID, exist_ok=True)
    ev = {
        "property_id": pid,
        "tier": tier,
        "seed": seed(),
        "level": level,
        "coverage": coverage,
        "assumptions": assumptions or [],
        "wall_s": round(wall, 2),
        "violations": violations,
    }
    tmp = os.path.join(EVID, pid + ".json.tmp")
    with open(tmp, "w") as f:
        json.dump(ev, f, indent=1, sort_keys=True, default=str)
        f.write("\n")
    os.replace(tmp, os.path.join(EVID, pid + ".json"))


class Verdict:
    """Collects violations / known findings of one check run."""

    def __init__(self, pid):
        self.pid = pid
        self.violations = []    # (note, replay path)
        self.known = []         # (key, text)
        self.notes = []

    def violation(self, note, paths):
        d = keep_violation(self.pid, paths, note)
        self.violations.append((note, d))

    def known_finding(self, key, text):
        if key not in [k for k, _ in self.known]:
            self.known.append((key, text))

    def finish(self):
        for key, text in self.known:
            log("KNOWN-FINDING: property=%s %s" % (self.pid, text))
        for n in self.notes:
            log(n)
        if self.violations:
            for note, d in self.violations[:20]:
                log("VIOLATION property=%s replay=%s" % (self.pid, d))
                log("  " + note[:2000])
            return 1
        return 0


# --------------------------------------------------------------------------- patterns
def gen_behaviours(pid, name, module, cfg, out_path, simulate=None, depth=None, workers=None,
                   timeout=600, marker="@@H "):
    """Direction A, step 1: let TLC print behaviours (history variable as JSON)."""
    raw = out_path + ".raw"
    r = tlc(pid, name, module, cfg, workers=workers, timeout=timeout, simulate=simulate, depth=depth,
            marker=marker, payload_to=raw)
    if r.timed_out and not simulate:
        raise Inconclusive("Gen %s timed out" % name)
    if r.violated or (r.error and not r.timed_out) or (r.rc not in (0,) and not r.timed_out):
        raise Inconclusive("Gen %s: TLC failed: %s %s (see %s)" % (name, r.violated, r.error, r.stdout_path))
    seen = set()
    n = 0
    with open(raw) as f, open(out_path, "w") as o:
        for line in f:
            h = hashlib.sha1(line.encode()).digest()
            if h in seen:
                continue
            seen.add(h)
            o.write(line)
            n += 1
    os.remove(raw)
    r.behaviours = n
    return r


def validate_traces(pid, name, module, cfg, trace_path, timeout=900, max_rejects=10, deque=False,
                    trace_name="trace.ndjson"):
    """Direction B: TLC validates the recorded trace file (runs concatenated; every run
    ends with an "end" event).  Returns (TLCResult of last run, rejects) where rejects is
    a list of (run id, line number in the run, rejected event, preceding events)."""
    rejects = []
    lines = open(trace_path).read().splitlines()
    total_states = 0
    while True:
        tmp = os.path.join(OUT, pid, trace_name)
        with open(tmp, "w") as f:
            f.write("\n".join(lines) + ("\n" if lines else ""))
        if not lines:
            break
        r = tlc(pid, name, module, cfg, workers=1, timeout=timeout, files=[tmp], deque=deque)
        total_states += r.distinct
        txt = open(r.stdout_path, errors="replace").read()
        m = re.search(r'"@@REJECT",\s*(\d+)', txt)
        if r.timed_out:
            raise Inconclusive("trace validation %s timed out" % name)
        if m:
            d = int(m.group(1))            # event d (1-based) is not a step of the spec
            ev = json.loads(lines[d - 1]) if d - 1 < len(lines) else {}
            run = ev.get("run")
            pre = [json.loads(x) for x in lines[max(0, d - 6):d - 1] if json.loads(x).get("run") == run]
            rejects.append((run, d, ev, pre))
            lines = [x for x in lines if json.loads(x).get("run") != run]
            if len(rejects) >= max_rejects:
                break
            continue
        if r.violated:
            # an invariant / action property of the spec failed on the recorded behaviour
            m2 = re.findall(r'^/\\ l = (\d+)', txt, re.M)
            d = int(m2[-1]) - 1 if m2 else 0
            ev = json.loads(lines[d - 1]) if 0 < d <= len(lines) else {}
            run = ev.get("run")
            rejects.append((run, d, dict(ev, _violated=r.violated), []))
            lines = [x for x in lines if json.loads(x).get("run") != run]
            if len(rejects) >= max_rejects:
                break
            continue
        if r.error or r.rc != 0:
            raise Inconclusive("trace validation %s: TLC error %s (see %s)" % (name, r.error, r.stdout_path))
        break
    r.total_states = total_states
    return r, rejects


def load_result(path):
    if not os.path.exists(path):
        raise Inconclusive("harness wrote no result file %s" % path)
    return json.load(open(path))
